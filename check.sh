#!/bin/bash
# Single entry point:  check.sh <ID> quick|thorough      run one property check at one tier
#                      check.sh <ID> --replay <file>      re-execute the root of a recorded violation
# Exit 0: property held on everything explored (open known findings are printed as KNOWN-FINDING lines)
# Exit 1: "VIOLATION property=<id> replay=<path>" printed for a violation that is not a listed open finding
# Exit 2: machinery error (build, GMP bootstrap, fixture gate, oracle disagreement, crash, nothing explored)
set -u
ID="${1:-}"; MODE="${2:-quick}"
VERIF=$(cd "$(dirname "$0")" && pwd)
export VERIF_ROOT=$VERIF
export CARGO_NET_OFFLINE=true
export CARGO_TARGET_DIR=$VERIF/target
export GMP_MPFR_SYS_CACHE=$VERIF/.cache/gmp-mpfr-sys
cd $VERIF/engine || exit 2
case "$ID" in
  C0[1-9]|C1[0-2]) BIN=zkmc ;;
  C1[3-9]) BIN=clmc ;;
  *) echo "MACHINERY-ERROR: unknown property '$ID'"; exit 2 ;;
esac
if [ "$BIN" = clmc ] && [ ! -f $GMP_MPFR_SYS_CACHE/1.7/x86_64-unknown-linux-gnu/1.7.1/libgmp.a ]; then
  bash $VERIF/scripts/gmp_bootstrap.sh >$VERIF/target/gmp_bootstrap.log 2>&1 || { echo "MACHINERY-ERROR: GMP bootstrap failed (see $VERIF/target/gmp_bootstrap.log)"; exit 2; }
fi
mkdir -p $VERIF/target
# always rebuild from /repo's current working tree (path dependency; cargo fingerprints the sources)
if ! cargo build --release --offline -q -p $BIN 2>$VERIF/target/build-$BIN.log; then
  echo "MACHINERY-ERROR: build of $BIN failed:"; grep -E "^error" -A8 $VERIF/target/build-$BIN.log | head -40
  exit 2
fi
if [ "$MODE" = "--replay" ]; then
  exec $VERIF/target/release/$BIN replay "${3:?replay file}"
fi
case "$MODE" in quick|thorough) ;; *) echo "MACHINERY-ERROR: tier must be quick|thorough"; exit 2 ;; esac
$VERIF/target/release/$BIN check "$ID" --tier "$MODE"
rc=$?
if [ $rc -gt 2 ]; then echo "MACHINERY-ERROR: engine $BIN terminated abnormally (status $rc)"; exit 2; fi
exit $rc
