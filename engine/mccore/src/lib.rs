//! mccore — the explorer bookkeeping shared by `zkmc` and `clmc`:
//! canonical-state de-duplication, transition / trace counters, verdict classes, violations with replay
//! files, known-findings handling, evidence writer, deterministic filler bytes, a 16-way work pool, and the
//! output channel that keeps library chatter away from verdict lines.

use serde_json::{json, Map, Value};
use sha2::{Digest, Sha256};
use std::collections::{BTreeMap, HashSet};
use std::io::Write;
use std::sync::atomic::{AtomicBool, AtomicU64, AtomicUsize, Ordering};
use std::sync::Mutex;
use std::time::{Duration, Instant};

#[derive(Clone, Copy, PartialEq, Eq, Debug)]
pub enum Tier {
    Quick,
    Thorough,
}
impl Tier {
    pub fn name(&self) -> &'static str {
        match self {
            Tier::Quick => "quick",
            Tier::Thorough => "thorough",
        }
    }
    pub fn thorough(&self) -> bool {
        *self == Tier::Thorough
    }
}

/// Root of the verification tree (evidence, replays, known findings). `check.sh` exports VERIF_ROOT = its own
/// directory, so a snapshot of /verif run from elsewhere writes into the snapshot.
pub fn verif_root() -> String {
    std::env::var("VERIF_ROOT").unwrap_or_else(|_| "/verif".to_string())
}

/// Source tree of the subject. Always /repo for the registered checks; VERIF_REPO is only set by the seeded-change
/// lab (scripts/seedlab.sh), which builds the engine against a scratch worktree so that /repo is never patched.
pub fn repo_root() -> String {
    std::env::var("VERIF_REPO").unwrap_or_else(|_| "/repo".to_string())
}

#[derive(Clone, Debug)]
pub struct Violation {
    /// stable, specific class of the failure (what known_findings.json matches on)
    pub signature: String,
    pub what: String,
    /// a self-contained description of the failing scenario; `<engine> replay <file>` re-executes it
    pub case: Value,
}

pub struct Ctx {
    pub prop: String,
    pub tier: Tier,
    pub seed: u64,
    pub level: String,
    start: Instant,
    wall_cap: Duration,
    states: Mutex<HashSet<[u8; 16]>>,
    transitions: AtomicU64,
    traces: AtomicU64,
    evaluations: AtomicU64,
    classes: Mutex<BTreeMap<String, u64>>,
    violations: Mutex<BTreeMap<String, (Violation, u64)>>,
    samples: Mutex<Vec<Value>>,
    notes: Mutex<Vec<String>>,
    extra: Mutex<Map<String, Value>>,
    assumptions: Mutex<Vec<String>>,
    capped: AtomicBool,
    exhaustive: AtomicBool,
    rule: Mutex<String>,
    pub max_samples: usize,
}

impl Ctx {
    pub fn new(prop: &str, tier: Tier, seed: u64, level: &str) -> Ctx {
        let cap = std::env::var("VERIF_WALL_CAP_S").ok().and_then(|s| s.parse().ok()).unwrap_or(match tier {
            Tier::Quick => 600u64,
            Tier::Thorough => 2400,
        });
        Ctx {
            prop: prop.to_string(),
            tier,
            seed,
            level: level.to_string(),
            start: Instant::now(),
            wall_cap: Duration::from_secs(cap),
            states: Mutex::new(HashSet::new()),
            transitions: AtomicU64::new(0),
            traces: AtomicU64::new(0),
            evaluations: AtomicU64::new(0),
            classes: Mutex::new(BTreeMap::new()),
            violations: Mutex::new(BTreeMap::new()),
            samples: Mutex::new(Vec::new()),
            notes: Mutex::new(Vec::new()),
            extra: Mutex::new(Map::new()),
            assumptions: Mutex::new(Vec::new()),
            capped: AtomicBool::new(false),
            exhaustive: AtomicBool::new(true),
            rule: Mutex::new(String::new()),
            max_samples: 6,
        }
    }

    /// Register a canonical state. Returns true when it was not seen before.
    pub fn state(&self, parts: &[&[u8]]) -> bool {
        let mut h = Sha256::new();
        for p in parts {
            h.update((p.len() as u64).to_be_bytes());
            h.update(p);
        }
        let d = h.finalize();
        let mut k = [0u8; 16];
        k.copy_from_slice(&d[..16]);
        self.states.lock().unwrap().insert(k)
    }
    pub fn state_str(&self, s: &str) -> bool {
        self.state(&[s.as_bytes()])
    }
    /// One call into the subject (a transition of the explored system).
    pub fn step(&self) {
        self.transitions.fetch_add(1, Ordering::Relaxed);
    }
    pub fn steps(&self, n: u64) {
        self.transitions.fetch_add(n, Ordering::Relaxed);
    }
    /// One maximal path executed on the implementation and judged against the oracles.
    pub fn trace(&self) {
        self.traces.fetch_add(1, Ordering::Relaxed);
    }
    pub fn eval(&self) {
        self.evaluations.fetch_add(1, Ordering::Relaxed);
    }
    pub fn class(&self, c: &str) {
        *self.classes.lock().unwrap().entry(c.to_string()).or_insert(0) += 1;
    }
    pub fn sample(&self, v: Value) {
        let mut s = self.samples.lock().unwrap();
        if s.len() < self.max_samples {
            s.push(v);
        }
    }
    pub fn note(&self, s: &str) {
        let mut n = self.notes.lock().unwrap();
        if n.len() < 200 {
            n.push(s.to_string());
        }
    }
    pub fn assume(&self, s: &str) {
        self.assumptions.lock().unwrap().push(s.to_string());
    }
    pub fn set_rule(&self, s: &str) {
        *self.rule.lock().unwrap() = s.to_string();
    }
    pub fn extra(&self, k: &str, v: Value) {
        self.extra.lock().unwrap().insert(k.to_string(), v);
    }
    pub fn add_extra(&self, k: &str, n: u64) {
        let mut e = self.extra.lock().unwrap();
        let cur = e.get(k).and_then(|v| v.as_u64()).unwrap_or(0);
        e.insert(k.to_string(), json!(cur + n));
    }
    pub fn not_exhaustive(&self, why: &str) {
        self.exhaustive.store(false, Ordering::Relaxed);
        self.note(&format!("not exhaustive: {}", why));
    }
    /// true once the wall cap is exceeded; callers stop scheduling new roots and the run is reported as capped.
    pub fn out_of_time(&self) -> bool {
        if self.start.elapsed() > self.wall_cap {
            if !self.capped.swap(true, Ordering::Relaxed) {
                self.note("wall cap hit; remaining roots skipped");
            }
            true
        } else {
            false
        }
    }
    pub fn violation(&self, signature: &str, what: &str, case: Value) {
        let mut v = self.violations.lock().unwrap();
        let e = v.entry(signature.to_string()).or_insert_with(|| {
            (Violation { signature: signature.to_string(), what: what.to_string(), case }, 0)
        });
        e.1 += 1;
    }
    pub fn n_violation_classes(&self) -> usize {
        self.violations.lock().unwrap().len()
    }
    pub fn elapsed(&self) -> f64 {
        self.start.elapsed().as_secs_f64()
    }

    /// Write evidence + replay files, print verdict lines, return the process exit code.
    pub fn finish(&self, out: &Out) -> i32 {
        let known = KnownFindings::load();
        let viol = self.violations.lock().unwrap();
        let mut new_violations = 0usize;
        let mut known_hits: Vec<String> = Vec::new();
        let mut lines: Vec<String> = Vec::new();
        std::fs::create_dir_all(format!("{}/replays", verif_root())).ok();
        for (sig, (v, count)) in viol.iter() {
            if let Some(k) = known.open_match(&self.prop, sig) {
                known_hits.push(sig.clone());
                lines.push(format!("KNOWN-FINDING: property={} {} [{}] (x{})", self.prop, k, sig, count));
                continue;
            }
            new_violations += 1;
            let mut h = Sha256::new();
            h.update(sig.as_bytes());
            let d = hex::encode(&h.finalize()[..6]);
            let path = format!("{}/replays/{}-{}.json", verif_root(), self.prop, d);
            let body = json!({"property": self.prop, "signature": sig, "what": v.what, "occurrences": count, "case": v.case});
            std::fs::write(&path, serde_json::to_string_pretty(&body).unwrap()).ok();
            lines.push(format!("VIOLATION property={} replay={}", self.prop, path));
            lines.push(format!("  what: {} [{}] (x{})", v.what, sig, count));
        }
        let states = self.states.lock().unwrap().len() as u64;
        let transitions = self.transitions.load(Ordering::Relaxed);
        let traces = self.traces.load(Ordering::Relaxed);
        let evals = self.evaluations.load(Ordering::Relaxed).max(traces);
        let classes = self.classes.lock().unwrap().clone();
        let mut cov = Map::new();
        cov.insert("states".into(), json!(states));
        cov.insert("transitions".into(), json!(transitions));
        cov.insert("traces_validated_against_impl".into(), json!(traces));
        cov.insert("evaluations".into(), json!(evals));
        cov.insert("distinct_nontrivial".into(), json!(states));
        cov.insert("rule".into(), json!(self.rule.lock().unwrap().clone()));
        cov.insert("samples".into(), Value::Array(self.samples.lock().unwrap().clone()));
        cov.insert("exhaustive".into(), json!(self.exhaustive.load(Ordering::Relaxed) && !self.capped.load(Ordering::Relaxed)));
        cov.insert("capped".into(), json!(self.capped.load(Ordering::Relaxed)));
        cov.insert("distinct_verdict_classes".into(), json!(classes.len()));
        cov.insert("verdict_classes".into(), json!(classes));
        cov.insert("known_findings_hit".into(), json!(known_hits));
        cov.insert("notes".into(), json!(self.notes.lock().unwrap().clone()));
        for (k, v) in self.extra.lock().unwrap().iter() {
            cov.insert(k.clone(), v.clone());
        }
        let ev = json!({
            "property_id": self.prop,
            "tier": self.tier.name(),
            "seed": self.seed,
            "level": self.level,
            "coverage": Value::Object(cov),
            "assumptions": self.assumptions.lock().unwrap().clone(),
            "wall_s": self.elapsed(),
            "violations": new_violations,
        });
        std::fs::create_dir_all(format!("{}/evidence", verif_root())).ok();
        let path = if std::env::var("VERIF_REPLAY").is_ok() {
            format!("{}/replays/last-replay-{}.json", verif_root(), self.prop)
        } else {
            format!("{}/evidence/{}.json", verif_root(), self.prop)
        };
        if let Err(e) = std::fs::write(&path, serde_json::to_string_pretty(&ev).unwrap()) {
            out.line(&format!("MACHINERY-ERROR: cannot write evidence {}: {}", path, e));
            return 2;
        }
        for l in lines {
            out.line(&l);
        }
        out.line(&format!(
            "{} {}: states={} transitions={} traces={} classes={} violations={} known={} wall={:.1}s{}",
            self.prop,
            self.tier.name(),
            states,
            transitions,
            traces,
            classes.len(),
            new_violations,
            known_hits.len(),
            self.elapsed(),
            if self.capped.load(Ordering::Relaxed) { " CAPPED" } else { "" }
        ));
        if states == 0 || transitions == 0 {
            out.line("MACHINERY-ERROR: nothing was explored");
            return 2;
        }
        let hp = HARNESS_PANICS.load(Ordering::Relaxed);
        if hp > 0 {
            out.line(&format!("MACHINERY-ERROR: {} work item(s) of the harness panicked (last: {})", hp, LAST_HARNESS_PANIC.lock().unwrap()));
        }
        if new_violations > 0 {
            1
        } else if hp > 0 {
            2
        } else {
            0
        }
    }
}

// -------------------------------------------------------------------------------------------------

pub struct KnownFindings {
    entries: Vec<Value>,
}
impl KnownFindings {
    pub fn load() -> KnownFindings {
        let p = format!("{}/known_findings.json", verif_root());
        let entries = std::fs::read_to_string(p)
            .ok()
            .and_then(|s| serde_json::from_str::<Value>(&s).ok())
            .and_then(|v| v.get("findings").and_then(|f| f.as_array().cloned()))
            .unwrap_or_default();
        KnownFindings { entries }
    }
    /// Only `status: open` entries suppress; `fixed` entries suppress nothing. Match is exact on signature.
    pub fn open_match(&self, prop: &str, sig: &str) -> Option<String> {
        for e in &self.entries {
            if e["status"] == "open" && e["property"] == prop && e["signature"] == sig {
                return Some(e["what"].as_str().unwrap_or("").to_string());
            }
        }
        None
    }
}

// -------------------------------------------------------------------------------------------------

/// Output channel: the real stdout is duplicated at start-up and fd 1 is pointed at /dev/null, so `println!`
/// chatter inside the library under test ("Empty array", CL03 failure reasons) can never be mistaken for a
/// verdict line and does not cost time.
pub struct Out {
    f: Mutex<std::fs::File>,
}
impl Out {
    pub fn capture() -> Out {
        use std::os::unix::io::FromRawFd;
        extern "C" {
            fn dup(fd: i32) -> i32;
            fn dup2(a: i32, b: i32) -> i32;
            fn open(path: *const u8, flags: i32) -> i32;
        }
        unsafe {
            let saved = dup(1);
            let null = open(b"/dev/null\0".as_ptr(), 1);
            if std::env::var("VERIF_KEEP_STDOUT").is_err() {
                dup2(null, 1);
            }
            Out { f: Mutex::new(std::fs::File::from_raw_fd(saved)) }
        }
    }
    pub fn line(&self, s: &str) {
        let mut f = self.f.lock().unwrap();
        let _ = writeln!(f, "{}", s);
        let _ = f.flush();
    }
}

// -------------------------------------------------------------------------------------------------

/// Deterministic filler bytes: SHA-256 in counter mode over (seed, label).
pub fn fill(seed: u64, label: &str, n: usize) -> Vec<u8> {
    let mut out = Vec::with_capacity(n + 32);
    let mut ctr = 0u64;
    while out.len() < n {
        let mut h = Sha256::new();
        h.update(b"verif-fill");
        h.update(seed.to_be_bytes());
        h.update(label.as_bytes());
        h.update(ctr.to_be_bytes());
        out.extend_from_slice(&h.finalize());
        ctr += 1;
    }
    out.truncate(n);
    out
}

pub static HARNESS_PANICS: AtomicUsize = AtomicUsize::new(0);
pub static LAST_HARNESS_PANIC: Mutex<String> = Mutex::new(String::new());

pub fn n_workers() -> usize {
    std::env::var("VERIF_WORKERS").ok().and_then(|s| s.parse().ok()).unwrap_or_else(|| {
        std::thread::available_parallelism().map(|n| n.get()).unwrap_or(4).min(16)
    })
}

/// Run `f` over all items on a pool of OS threads; work list is fixed before execution (deterministic coverage).
pub fn par_for<T: Sync, F: Fn(usize, &T) + Sync>(items: &[T], f: F) {
    let next = AtomicUsize::new(0);
    let n = n_workers().min(items.len().max(1));
    std::thread::scope(|s| {
        for _ in 0..n {
            s.spawn(|| loop {
                let i = next.fetch_add(1, Ordering::Relaxed);
                if i >= items.len() {
                    break;
                }
                // a panic of the HARNESS inside one work item must not take the run down (and hide what the other items found)
                if std::panic::catch_unwind(std::panic::AssertUnwindSafe(|| f(i, &items[i]))).is_err() {
                    HARNESS_PANICS.fetch_add(1, Ordering::Relaxed);
                    *LAST_HARNESS_PANIC.lock().unwrap() = last_panic();
                }
            });
        }
    });
}

/// All subsets of {0..n-1} as sorted index vectors, in order of the bitmask.
pub fn subsets(n: usize) -> Vec<Vec<usize>> {
    (0..(1usize << n)).map(|m| (0..n).filter(|i| m >> i & 1 == 1).collect()).collect()
}

/// All tuples of length `len` over `0..k`.
pub fn tuples(k: usize, len: usize) -> Vec<Vec<usize>> {
    let mut out = vec![vec![]];
    for _ in 0..len {
        let mut nxt = Vec::new();
        for t in &out {
            for a in 0..k {
                let mut u = t.clone();
                u.push(a);
                nxt.push(u);
            }
        }
        out = nxt;
    }
    out
}

pub fn hexs(b: &[u8]) -> String {
    if b.len() <= 96 {
        hex::encode(b)
    } else {
        format!("{}..({} bytes)", hex::encode(&b[..32]), b.len())
    }
}

thread_local! {
    static LAST_PANIC: std::cell::RefCell<String> = std::cell::RefCell::new(String::new());
}

/// Install a panic hook that records the message per thread instead of printing.
pub fn quiet_panics() {
    if std::env::var("VERIF_LOUD_PANICS").is_ok() { return; }
    std::panic::set_hook(Box::new(|info| {
        let msg = if let Some(s) = info.payload().downcast_ref::<&str>() {
            s.to_string()
        } else if let Some(s) = info.payload().downcast_ref::<String>() {
            s.clone()
        } else {
            "panic".to_string()
        };
        let loc = info.location().map(|l| format!("{}:{}", l.file(), l.line())).unwrap_or_default();
        LAST_PANIC.with(|p| *p.borrow_mut() = format!("{} @ {}", msg, loc));
    }));
}
pub fn last_panic() -> String {
    LAST_PANIC.with(|p| p.borrow().clone())
}

/// Outcome of one call into the subject.
#[derive(Clone, Debug, PartialEq)]
pub enum O<T> {
    Ok(T),
    Err(String),
    Panic(String),
}
impl<T> O<T> {
    pub fn is_ok(&self) -> bool {
        matches!(self, O::Ok(_))
    }
    pub fn is_err(&self) -> bool {
        matches!(self, O::Err(_))
    }
    pub fn is_panic(&self) -> bool {
        matches!(self, O::Panic(_))
    }
    pub fn ok(self) -> Option<T> {
        match self {
            O::Ok(v) => Some(v),
            _ => None,
        }
    }
    pub fn kind(&self) -> &'static str {
        match self {
            O::Ok(_) => "ok",
            O::Err(_) => "err",
            O::Panic(_) => "panic",
        }
    }
    pub fn describe(&self) -> String {
        match self {
            O::Ok(_) => "Ok".into(),
            O::Err(e) => format!("Err({})", e),
            O::Panic(e) => format!("PANIC({})", e),
        }
    }
    pub fn map<U>(self, f: impl FnOnce(T) -> U) -> O<U> {
        match self {
            O::Ok(v) => O::Ok(f(v)),
            O::Err(e) => O::Err(e),
            O::Panic(e) => O::Panic(e),
        }
    }
}

/// Run a call into the subject under catch_unwind.
pub fn guard<T, E: std::fmt::Debug>(f: impl FnOnce() -> Result<T, E>) -> O<T> {
    match std::panic::catch_unwind(std::panic::AssertUnwindSafe(f)) {
        Ok(Ok(v)) => O::Ok(v),
        Ok(Err(e)) => O::Err(format!("{:?}", e)),
        Err(_) => O::Panic(last_panic()),
    }
}
pub fn guard_val<T>(f: impl FnOnce() -> T) -> O<T> {
    match std::panic::catch_unwind(std::panic::AssertUnwindSafe(f)) {
        Ok(v) => O::Ok(v),
        Err(_) => O::Panic(last_panic()),
    }
}

// -------------------------------------------------------------------------------------------------
// Environment shared by the engines

pub struct Env {
    pub ctx: Ctx,
    pub only_root: Option<String>,
    pub machinery_error: AtomicBool,
}

impl Env {
    pub fn new(ctx: Ctx, only_root: Option<String>) -> Env {
        Env { ctx, only_root, machinery_error: AtomicBool::new(false) }
    }
    pub fn want(&self, root: &str) -> bool {
        match &self.only_root {
            None => true,
            Some(r) => r == root,
        }
    }
    /// The reference and the semantic oracle disagree, or the harness itself failed: never a verdict.
    pub fn machinery(&self, what: &str) {
        self.machinery_error.store(true, Ordering::Relaxed);
        self.ctx.note(&format!("MACHINERY: {}", what));
    }
    pub fn has_machinery_error(&self) -> bool {
        self.machinery_error.load(Ordering::Relaxed)
    }
    pub fn tier(&self) -> Tier {
        self.ctx.tier
    }
    pub fn thorough(&self) -> bool {
        self.ctx.tier.thorough()
    }
    pub fn case(&self, root: &str, detail: Value) -> Value {
        json!({"root": root, "tier": self.ctx.tier.name(), "seed": self.ctx.seed, "detail": detail})
    }
}

// -------------------------------------------------------------------------------------------------
// JSON views of serialized artefacts (the view the other party has)

/// Paths of all big-integer leaves ({"radix":16,"value":"<hex>"} objects of rug's serde format).
pub fn int_leaf_paths(v: &Value) -> Vec<Vec<String>> {
    fn rec(v: &Value, pre: &mut Vec<String>, out: &mut Vec<Vec<String>>) {
        match v {
            Value::Object(m) => {
                if m.len() == 2 && m.contains_key("radix") && m.get("value").map(|x| x.is_string()).unwrap_or(false) {
                    out.push(pre.clone());
                    return;
                }
                for (k, x) in m {
                    pre.push(k.clone());
                    rec(x, pre, out);
                    pre.pop();
                }
            }
            Value::Array(a) => {
                for (i, x) in a.iter().enumerate() {
                    pre.push(i.to_string());
                    rec(x, pre, out);
                    pre.pop();
                }
            }
            _ => {}
        }
    }
    let mut out = Vec::new();
    rec(v, &mut Vec::new(), &mut out);
    out
}
pub fn json_get<'a>(v: &'a Value, path: &[String]) -> Option<&'a Value> {
    let mut cur = v;
    for p in path {
        cur = match cur {
            Value::Object(m) => m.get(p)?,
            Value::Array(a) => a.get(p.parse::<usize>().ok()?)?,
            _ => return None,
        };
    }
    Some(cur)
}
pub fn json_set(v: &mut Value, path: &[String], new: Value) -> bool {
    let mut cur = v;
    for p in path {
        cur = match cur {
            Value::Object(m) => match m.get_mut(p) { Some(x) => x, None => return false },
            Value::Array(a) => match p.parse::<usize>().ok().and_then(|i| a.get_mut(i)) { Some(x) => x, None => return false },
            _ => return false,
        };
    }
    *cur = new;
    true
}
/// Path with array positions replaced by `*` (class of a leaf, used in violation signatures).
pub fn path_class(path: &[String]) -> String {
    path.iter().map(|p| if p.chars().all(|c| c.is_ascii_digit()) { "*".to_string() } else { p.clone() }).collect::<Vec<_>>().join("/")
}
