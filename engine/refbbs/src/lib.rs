//! refbbs — an independent, deliberately boring reference implementation of
//! draft-irtf-cfrg-bbs-signatures-08 and of draft-irtf-cfrg-bbs-blind-signatures-01 *as pinned by the
//! repository's blind vectors* (four documented deviations, see DESIGN.md §3.2).
//!
//! Written from the text of the drafts, not from zkryptium's source. Shared trusted base: the group,
//! pairing and hash-to-curve arithmetic of `bls12_381_plus`, and the SHA-2 / SHA-3 primitives.
//! `expand_message_xmd/xof`, `hash_to_scalar`, OS2IP reduction, all encodings and all protocol logic are
//! written here from scratch.
#![allow(non_snake_case)]

use bls12_381_plus::{
    multi_miller_loop, G1Affine, G1Projective, G2Affine, G2Prepared, G2Projective, Gt, Scalar,
};
use elliptic_curve::hash2curve::{ExpandMsgXmd, ExpandMsgXof};

use group::{Curve, Group};
use sha2::{Digest, Sha256};
use sha3::digest::{ExtendableOutput, Update, XofReader};
use sha3::Shake256;

pub mod fixtures;

#[derive(Clone, Copy, PartialEq, Eq, Debug, Hash, PartialOrd, Ord)]
pub enum Suite {
    Sha256,
    Shake256,
}

pub const SUITES: [Suite; 2] = [Suite::Sha256, Suite::Shake256];

#[derive(Clone, Copy, PartialEq, Eq, Debug, Hash, PartialOrd, Ord)]
pub enum Iface {
    Plain,
    Blind,
}

pub type R<T> = Result<T, String>;

fn err<T>(s: &str) -> R<T> {
    Err(s.to_string())
}

impl Suite {
    pub fn name(&self) -> &'static str {
        match self {
            Suite::Sha256 => "sha256",
            Suite::Shake256 => "shake256",
        }
    }
    pub fn other(&self) -> Suite {
        match self {
            Suite::Sha256 => Suite::Shake256,
            Suite::Shake256 => Suite::Sha256,
        }
    }
    pub fn ciphersuite_id(&self) -> Vec<u8> {
        match self {
            Suite::Sha256 => b"BBS_BLS12381G1_XMD:SHA-256_SSWU_RO_".to_vec(),
            Suite::Shake256 => b"BBS_BLS12381G1_XOF:SHAKE-256_SSWU_RO_".to_vec(),
        }
    }
    /// api_id of the plain interface: ciphersuite_id || "H2G_HM2S_"
    pub fn api_id(&self) -> Vec<u8> {
        cat(&[&self.ciphersuite_id(), b"H2G_HM2S_"])
    }
    /// api_id of the blind interface: ciphersuite_id || "BLIND_H2G_HM2S_"
    pub fn api_id_blind(&self) -> Vec<u8> {
        cat(&[&self.ciphersuite_id(), b"BLIND_H2G_HM2S_"])
    }
    pub fn api(&self, i: Iface) -> Vec<u8> {
        match i {
            Iface::Plain => self.api_id(),
            Iface::Blind => self.api_id_blind(),
        }
    }
    pub fn p1(&self) -> G1Projective {
        let h = match self {
            Suite::Sha256 => "a8ce256102840821a3e94ea9025e4662b205762f9776b3a766c872b948f1fd225e7c59698588e70d11406d161b4e28c9",
            Suite::Shake256 => "8929dfbc7e6642c4ed9cba0856e493f8b9d7d5fcb0c31ef8fdcd34d50648a56c795e106e9eada6e0bda386b414150755",
        };
        let b: [u8; 48] = hex::decode(h).unwrap().try_into().unwrap();
        G1Projective::from(G1Affine::from_compressed(&b).unwrap())
    }
}

pub fn cat(parts: &[&[u8]]) -> Vec<u8> {
    let mut v = Vec::new();
    for p in parts {
        v.extend_from_slice(p);
    }
    v
}

/// I2OSP(x, n)
pub fn i2osp(x: u128, n: usize) -> Vec<u8> {
    let mut out = vec![0u8; n];
    let mut x = x;
    for i in (0..n).rev() {
        out[i] = (x & 0xff) as u8;
        x >>= 8;
    }
    assert!(x == 0, "i2osp: value does not fit");
    out
}

// ---------------------------------------------------------------------------------------------
// RFC 9380 expand_message

pub fn expand_message_xmd_sha256(msg: &[u8], dst: &[u8], len: usize) -> R<Vec<u8>> {
    let b_in = 32usize;
    let s_in = 64usize;
    let ell = (len + b_in - 1) / b_in;
    if ell > 255 || len > 65535 || dst.len() > 255 {
        return err("expand_message_xmd: abort");
    }
    let dst_prime = cat(&[dst, &i2osp(dst.len() as u128, 1)]);
    let z_pad = vec![0u8; s_in];
    let msg_prime = cat(&[&z_pad, msg, &i2osp(len as u128, 2), &[0u8], &dst_prime]);
    let b0 = Sha256::digest(&msg_prime).to_vec();
    let mut out: Vec<u8> = Vec::new();
    let mut prev = Sha256::digest(cat(&[&b0, &[1u8], &dst_prime])).to_vec();
    out.extend_from_slice(&prev);
    for i in 2..=ell {
        let x: Vec<u8> = b0.iter().zip(prev.iter()).map(|(a, b)| a ^ b).collect();
        prev = Sha256::digest(cat(&[&x, &[i as u8], &dst_prime])).to_vec();
        out.extend_from_slice(&prev);
    }
    out.truncate(len);
    Ok(out)
}

pub fn expand_message_xof_shake256(msg: &[u8], dst: &[u8], len: usize) -> R<Vec<u8>> {
    if len > 65535 || dst.len() > 255 {
        return err("expand_message_xof: abort");
    }
    let dst_prime = cat(&[dst, &i2osp(dst.len() as u128, 1)]);
    let msg_prime = cat(&[msg, &i2osp(len as u128, 2), &dst_prime]);
    let mut h = Shake256::default();
    h.update(&msg_prime);
    let mut rd = h.finalize_xof();
    let mut out = vec![0u8; len];
    rd.read(&mut out);
    Ok(out)
}

pub fn expand_message(s: Suite, msg: &[u8], dst: &[u8], len: usize) -> R<Vec<u8>> {
    match s {
        Suite::Sha256 => expand_message_xmd_sha256(msg, dst, len),
        Suite::Shake256 => expand_message_xof_shake256(msg, dst, len),
    }
}

/// OS2IP(bytes) mod r, by Horner in the scalar field.
pub fn os2ip_mod_r(bytes: &[u8]) -> Scalar {
    let b256 = Scalar::from(256u64);
    let mut acc = Scalar::ZERO;
    for &b in bytes {
        acc = acc * b256 + Scalar::from(b as u64);
    }
    acc
}

pub const EXPAND_LEN: usize = 48;

pub fn hash_to_scalar(s: Suite, msg: &[u8], dst: &[u8]) -> R<Scalar> {
    if dst.len() > 255 {
        return err("hash_to_scalar: dst too long");
    }
    let u = expand_message(s, msg, dst, EXPAND_LEN)?;
    Ok(os2ip_mod_r(&u))
}

fn hash_to_curve_g1(s: Suite, msg: &[u8], dst: &[u8]) -> G1Projective {
    match s {
        Suite::Sha256 => G1Projective::hash::<ExpandMsgXmd<Sha256>>(msg, dst),
        Suite::Shake256 => G1Projective::hash::<ExpandMsgXof<Shake256>>(msg, dst),
    }
}

pub fn create_generators(s: Suite, count: usize, api_id: &[u8]) -> Vec<G1Projective> {
    let seed_dst = cat(&[api_id, b"SIG_GENERATOR_SEED_"]);
    let generator_dst = cat(&[api_id, b"SIG_GENERATOR_DST_"]);
    let generator_seed = cat(&[api_id, b"MESSAGE_GENERATOR_SEED"]);
    let mut v = expand_message(s, &generator_seed, &seed_dst, EXPAND_LEN).expect("dst fits");
    let mut out = Vec::with_capacity(count);
    for i in 1..=count {
        v = expand_message(s, &cat(&[&v, &i2osp(i as u128, 8)]), &seed_dst, EXPAND_LEN).unwrap();
        out.push(hash_to_curve_g1(s, &v, &generator_dst));
    }
    out
}

pub fn messages_to_scalars(s: Suite, msgs: &[Vec<u8>], api_id: &[u8]) -> R<Vec<Scalar>> {
    let map_dst = cat(&[api_id, b"MAP_MSG_TO_SCALAR_AS_HASH_"]);
    msgs.iter().map(|m| hash_to_scalar(s, m, &map_dst)).collect()
}

pub fn sc_bytes(x: &Scalar) -> [u8; 32] {
    x.to_be_bytes()
}
pub fn g1_bytes(p: &G1Projective) -> [u8; 48] {
    p.to_affine().to_compressed()
}
pub fn g2_bytes(p: &G2Projective) -> [u8; 96] {
    p.to_affine().to_compressed()
}

// ---------------------------------------------------------------------------------------------
// Keys

/// KeyGen. `key_dst = None` defaults to api_id || "KEYGEN_DST_" (the value the draft's own key-pair
/// fixture uses; the running text of draft-08 says ciphersuite_id || "KEYGEN_DST_", the fixture pins the
/// api_id form — recorded in DESIGN.md as an ambiguity of the draft, not a finding).
pub fn keygen(s: Suite, ikm: &[u8], key_info: &[u8], key_dst: Option<&[u8]>) -> R<Scalar> {
    if ikm.len() < 32 {
        return err("key_material too short");
    }
    if key_info.len() > 65535 {
        return err("key_info too long");
    }
    let dflt = cat(&[&s.api_id(), b"KEYGEN_DST_"]);
    let key_dst = key_dst.unwrap_or(&dflt);
    let derive_input = cat(&[ikm, &i2osp(key_info.len() as u128, 2), key_info]);
    hash_to_scalar(s, &derive_input, key_dst)
}

pub fn sk_to_pk(sk: &Scalar) -> [u8; 96] {
    g2_bytes(&(G2Projective::GENERATOR * sk))
}

// ---------------------------------------------------------------------------------------------
// Decoders (draft-08 §4.2.4: octets_to_signature / octets_to_proof / octets_to_pubkey)

pub fn octets_to_scalar_strict(b: &[u8]) -> R<Scalar> {
    let a: [u8; 32] = b.try_into().map_err(|_| "scalar length".to_string())?;
    // canonical: value < r. from_be_bytes returns None for non-canonical values; cross-check with Horner.
    let o = Scalar::from_be_bytes(&a);
    if bool::from(o.is_none()) {
        return err("scalar >= r");
    }
    let v = o.unwrap();
    if os2ip_mod_r(&a).to_be_bytes() != a {
        return err("scalar >= r (horner)");
    }
    Ok(v)
}

pub fn octets_to_point_g1(b: &[u8]) -> R<G1Projective> {
    let a: [u8; 48] = b.try_into().map_err(|_| "g1 length".to_string())?;
    let o = G1Affine::from_compressed(&a);
    if bool::from(o.is_none()) {
        return err("g1 invalid");
    }
    let p = o.unwrap();
    if !bool::from(p.is_on_curve()) || !bool::from(p.is_torsion_free()) {
        return err("g1 not in subgroup");
    }
    if p.to_compressed() != a {
        return err("g1 non canonical");
    }
    Ok(G1Projective::from(p))
}

pub fn octets_to_pubkey(b: &[u8]) -> R<G2Projective> {
    let a: [u8; 96] = b.try_into().map_err(|_| "pk length".to_string())?;
    let o = G2Affine::from_compressed(&a);
    if bool::from(o.is_none()) {
        return err("pk invalid point");
    }
    let p = o.unwrap();
    if !bool::from(p.is_on_curve()) || !bool::from(p.is_torsion_free()) {
        return err("pk not in subgroup");
    }
    if bool::from(p.is_identity()) {
        return err("pk identity");
    }
    if p.to_compressed() != a {
        return err("pk non canonical");
    }
    Ok(G2Projective::from(p))
}

pub fn octets_to_signature(b: &[u8]) -> R<(G1Projective, Scalar)> {
    if b.len() != 80 {
        return err("signature length");
    }
    let A = octets_to_point_g1(&b[..48])?;
    if bool::from(A.is_identity()) {
        return err("A identity");
    }
    let e = octets_to_scalar_strict(&b[48..])?;
    if e == Scalar::ZERO {
        return err("e zero");
    }
    Ok((A, e))
}

#[derive(Clone, Debug, PartialEq)]
pub struct Proof {
    pub Abar: G1Projective,
    pub Bbar: G1Projective,
    pub D: G1Projective,
    pub e_hat: Scalar,
    pub r1_hat: Scalar,
    pub r3_hat: Scalar,
    pub m_hat: Vec<Scalar>,
    pub c: Scalar,
}

impl Proof {
    pub fn to_octets(&self) -> Vec<u8> {
        let mut v = Vec::new();
        v.extend_from_slice(&g1_bytes(&self.Abar));
        v.extend_from_slice(&g1_bytes(&self.Bbar));
        v.extend_from_slice(&g1_bytes(&self.D));
        v.extend_from_slice(&sc_bytes(&self.e_hat));
        v.extend_from_slice(&sc_bytes(&self.r1_hat));
        v.extend_from_slice(&sc_bytes(&self.r3_hat));
        for m in &self.m_hat {
            v.extend_from_slice(&sc_bytes(m));
        }
        v.extend_from_slice(&sc_bytes(&self.c));
        v
    }
}

/// octets_to_proof. Zero scalars: the draft says INVALID; property C09 does not name them, so callers that
/// compare decisions treat "zero scalar" as a don't-care class (`zero_scalar` flag in the error text).
pub fn octets_to_proof(b: &[u8]) -> R<Proof> {
    let floor = 3 * 48 + 4 * 32;
    if b.len() < floor {
        return err("proof too short");
    }
    if (b.len() - floor) % 32 != 0 {
        return err("proof length not on scalar boundary");
    }
    let mut pts = Vec::new();
    for i in 0..3 {
        let p = octets_to_point_g1(&b[48 * i..48 * (i + 1)])?;
        if bool::from(p.is_identity()) {
            return err("proof point identity");
        }
        pts.push(p);
    }
    let mut sc = Vec::new();
    let mut idx = 144;
    while idx < b.len() {
        sc.push(octets_to_scalar_strict(&b[idx..idx + 32])?);
        idx += 32;
    }
    let c = sc.pop().unwrap();
    let m_hat = sc.split_off(3);
    Ok(Proof { Abar: pts[0], Bbar: pts[1], D: pts[2], e_hat: sc[0], r1_hat: sc[1], r3_hat: sc[2], m_hat, c })
}

// ---------------------------------------------------------------------------------------------
// Core operations

pub fn calculate_domain(
    s: Suite,
    pk: &[u8; 96],
    Q1: &G1Projective,
    H: &[G1Projective],
    header: &[u8],
    api_id: &[u8],
) -> R<Scalar> {
    let domain_dst = cat(&[api_id, b"H2S_"]);
    let mut dom = Vec::new();
    dom.extend_from_slice(pk);
    dom.extend_from_slice(&i2osp(H.len() as u128, 8));
    dom.extend_from_slice(&g1_bytes(Q1));
    for h in H {
        dom.extend_from_slice(&g1_bytes(h));
    }
    dom.extend_from_slice(api_id);
    dom.extend_from_slice(&i2osp(header.len() as u128, 8));
    dom.extend_from_slice(header);
    hash_to_scalar(s, &dom, &domain_dst)
}

fn compute_B(P1: &G1Projective, Q1: &G1Projective, domain: &Scalar, H: &[G1Projective], m: &[Scalar]) -> G1Projective {
    let mut B = P1 + Q1 * domain;
    for (h, x) in H.iter().zip(m.iter()) {
        B += h * x;
    }
    B
}

pub fn core_sign(
    s: Suite,
    sk: &Scalar,
    pk: &[u8; 96],
    gens: &[G1Projective],
    header: &[u8],
    msgs: &[Scalar],
    api_id: &[u8],
) -> R<[u8; 80]> {
    if gens.len() != msgs.len() + 1 {
        return err("generators");
    }
    let Q1 = gens[0];
    let H = &gens[1..];
    let domain = calculate_domain(s, pk, &Q1, H, header, api_id)?;
    let mut e_in = Vec::new();
    e_in.extend_from_slice(&sc_bytes(sk));
    for m in msgs {
        e_in.extend_from_slice(&sc_bytes(m));
    }
    e_in.extend_from_slice(&sc_bytes(&domain));
    let e = hash_to_scalar(s, &e_in, &cat(&[api_id, b"H2S_"]))?;
    let B = compute_B(&s.p1(), &Q1, &domain, H, msgs);
    let inv = Option::<Scalar>::from((sk + e).invert()).ok_or("sk+e = 0")?;
    let A = B * inv;
    if bool::from(A.is_identity()) {
        return err("A identity");
    }
    let mut out = [0u8; 80];
    out[..48].copy_from_slice(&g1_bytes(&A));
    out[48..].copy_from_slice(&sc_bytes(&e));
    Ok(out)
}

fn pairing_check(a1: &G1Projective, b1: &G2Projective, a2: &G1Projective, b2: &G2Projective) -> bool {
    let t1 = (a1.to_affine(), G2Prepared::from(b1.to_affine()));
    let t2 = (a2.to_affine(), G2Prepared::from(b2.to_affine()));
    let r = multi_miller_loop(&[(&t1.0, &t1.1), (&t2.0, &t2.1)]).final_exponentiation();
    r == Gt::IDENTITY
}

pub fn core_verify(
    s: Suite,
    pk: &[u8],
    sig: &[u8],
    gens: &[G1Projective],
    header: &[u8],
    msgs: &[Scalar],
    api_id: &[u8],
) -> R<()> {
    let (A, e) = octets_to_signature(sig)?;
    let W = octets_to_pubkey(pk)?;
    if gens.len() != msgs.len() + 1 {
        return err("generators");
    }
    let pk96: [u8; 96] = pk.try_into().unwrap();
    let Q1 = gens[0];
    let H = &gens[1..];
    let domain = calculate_domain(s, &pk96, &Q1, H, header, api_id)?;
    let B = compute_B(&s.p1(), &Q1, &domain, H, msgs);
    if pairing_check(&A, &(W + G2Projective::GENERATOR * e), &B, &(-G2Projective::GENERATOR)) {
        Ok(())
    } else {
        err("pairing")
    }
}

pub fn sign(s: Suite, sk: &Scalar, pk: &[u8; 96], header: &[u8], msgs: &[Vec<u8>]) -> R<[u8; 80]> {
    let api = s.api_id();
    let ms = messages_to_scalars(s, msgs, &api)?;
    let gens = create_generators(s, msgs.len() + 1, &api);
    core_sign(s, sk, pk, &gens, header, &ms, &api)
}

pub fn verify(s: Suite, pk: &[u8], sig: &[u8], header: &[u8], msgs: &[Vec<u8>]) -> R<()> {
    let api = s.api_id();
    let ms = messages_to_scalars(s, msgs, &api)?;
    let gens = create_generators(s, msgs.len() + 1, &api);
    core_verify(s, pk, sig, &gens, header, &ms, &api)
}

// ---------------------------------------------------------------------------------------------
// Proofs

pub struct InitRes {
    pub Abar: G1Projective,
    pub Bbar: G1Projective,
    pub D: G1Projective,
    pub T1: G1Projective,
    pub T2: G1Projective,
    pub domain: Scalar,
}

pub fn challenge_calculate(
    s: Suite,
    init: &InitRes,
    disclosed: &[(usize, Scalar)],
    ph: &[u8],
    api_id: &[u8],
) -> R<Scalar> {
    let mut c = Vec::new();
    c.extend_from_slice(&i2osp(disclosed.len() as u128, 8));
    for (i, m) in disclosed {
        c.extend_from_slice(&i2osp(*i as u128, 8));
        c.extend_from_slice(&sc_bytes(m));
    }
    for p in [&init.Abar, &init.Bbar, &init.D, &init.T1, &init.T2] {
        c.extend_from_slice(&g1_bytes(p));
    }
    c.extend_from_slice(&sc_bytes(&init.domain));
    c.extend_from_slice(&i2osp(ph.len() as u128, 8));
    c.extend_from_slice(ph);
    hash_to_scalar(s, &c, &cat(&[api_id, b"H2S_"]))
}

/// CoreProofGen with explicit random scalars (r1, r2, e~, r1~, r3~, m~_1..m~_U).
#[allow(clippy::too_many_arguments)]
pub fn core_proof_gen(
    s: Suite,
    pk: &[u8; 96],
    sig: &[u8],
    gens: &[G1Projective],
    header: &[u8],
    ph: &[u8],
    msgs: &[Scalar],
    disclosed_idx: &[usize],
    api_id: &[u8],
    rnd: &[Scalar],
) -> R<Proof> {
    let (A, e) = octets_to_signature(sig)?;
    let L = msgs.len();
    if gens.len() != L + 1 {
        return err("generators");
    }
    // indexes: strictly ascending, in range
    for w in disclosed_idx.windows(2) {
        if w[0] >= w[1] {
            return err("indexes not strictly ascending");
        }
    }
    if disclosed_idx.iter().any(|&i| i >= L) {
        return err("index out of range");
    }
    let undisclosed: Vec<usize> = (0..L).filter(|i| !disclosed_idx.contains(i)).collect();
    let U = undisclosed.len();
    if rnd.len() != 5 + U {
        return err("random scalars");
    }
    let Q1 = gens[0];
    let H = &gens[1..];
    let domain = calculate_domain(s, pk, &Q1, H, header, api_id)?;
    let B = compute_B(&s.p1(), &Q1, &domain, H, msgs);
    let (r1, r2, et, r1t, r3t) = (rnd[0], rnd[1], rnd[2], rnd[3], rnd[4]);
    let mt = &rnd[5..];
    let D = B * r2;
    let Abar = A * (r1 * r2);
    let Bbar = D * r1 - Abar * e;
    let T1 = Abar * et + D * r1t;
    let mut T2 = D * r3t;
    for (k, &j) in undisclosed.iter().enumerate() {
        T2 += H[j] * mt[k];
    }
    let init = InitRes { Abar, Bbar, D, T1, T2, domain };
    let disclosed: Vec<(usize, Scalar)> = disclosed_idx.iter().map(|&i| (i, msgs[i])).collect();
    let c = challenge_calculate(s, &init, &disclosed, ph, api_id)?;
    let r3 = Option::<Scalar>::from(r2.invert()).ok_or("r2 = 0")?;
    let e_hat = et + e * c;
    let r1_hat = r1t - r1 * c;
    let r3_hat = r3t - r3 * c;
    let m_hat: Vec<Scalar> = undisclosed.iter().enumerate().map(|(k, &j)| mt[k] + msgs[j] * c).collect();
    Ok(Proof { Abar, Bbar, D, e_hat, r1_hat, r3_hat, m_hat, c })
}

#[allow(clippy::too_many_arguments)]
pub fn core_proof_verify(
    s: Suite,
    pk: &[u8],
    proof: &Proof,
    gens: &[G1Projective],
    header: &[u8],
    ph: &[u8],
    disclosed: &[(usize, Scalar)],
    api_id: &[u8],
) -> R<()> {
    let W = octets_to_pubkey(pk)?;
    let pk96: [u8; 96] = pk.try_into().unwrap();
    let U = proof.m_hat.len();
    let Rn = disclosed.len();
    let L = U + Rn;
    for w in disclosed.windows(2) {
        if w[0].0 >= w[1].0 {
            return err("indexes not strictly ascending");
        }
    }
    if disclosed.iter().any(|(i, _)| *i >= L) {
        return err("index out of range");
    }
    if gens.len() != L + 1 {
        return err("generators");
    }
    if bool::from(proof.Abar.is_identity()) || bool::from(proof.Bbar.is_identity()) || bool::from(proof.D.is_identity()) {
        return err("identity point in proof");
    }
    let Q1 = gens[0];
    let H = &gens[1..];
    let didx: Vec<usize> = disclosed.iter().map(|x| x.0).collect();
    let undisclosed: Vec<usize> = (0..L).filter(|i| !didx.contains(i)).collect();
    let domain = calculate_domain(s, &pk96, &Q1, H, header, api_id)?;
    let T1 = proof.Bbar * proof.c + proof.Abar * proof.e_hat + proof.D * proof.r1_hat;
    let mut Bv = s.p1() + Q1 * domain;
    for (i, m) in disclosed {
        Bv += H[*i] * m;
    }
    let mut T2 = Bv * proof.c + proof.D * proof.r3_hat;
    for (k, &j) in undisclosed.iter().enumerate() {
        T2 += H[j] * proof.m_hat[k];
    }
    let init = InitRes { Abar: proof.Abar, Bbar: proof.Bbar, D: proof.D, T1, T2, domain };
    let cv = challenge_calculate(s, &init, disclosed, ph, api_id)?;
    if cv != proof.c {
        return err("challenge mismatch");
    }
    if pairing_check(&proof.Abar, &W, &proof.Bbar, &(-G2Projective::GENERATOR)) {
        Ok(())
    } else {
        err("pairing")
    }
}

#[allow(clippy::too_many_arguments)]
pub fn proof_gen(
    s: Suite,
    pk: &[u8; 96],
    sig: &[u8],
    header: &[u8],
    ph: &[u8],
    msgs: &[Vec<u8>],
    disclosed_idx: &[usize],
    rnd: &[Scalar],
) -> R<Vec<u8>> {
    let api = s.api_id();
    let ms = messages_to_scalars(s, msgs, &api)?;
    let gens = create_generators(s, msgs.len() + 1, &api);
    Ok(core_proof_gen(s, pk, sig, &gens, header, ph, &ms, disclosed_idx, &api, rnd)?.to_octets())
}

pub fn proof_verify(
    s: Suite,
    pk: &[u8],
    proof: &[u8],
    header: &[u8],
    ph: &[u8],
    disclosed_msgs: &[Vec<u8>],
    disclosed_idx: &[usize],
) -> R<()> {
    let api = s.api_id();
    let p = octets_to_proof(proof)?;
    if disclosed_msgs.len() != disclosed_idx.len() {
        return err("len(messages) != len(indexes)");
    }
    let ms = messages_to_scalars(s, disclosed_msgs, &api)?;
    let L = p.m_hat.len() + disclosed_idx.len();
    let gens = create_generators(s, L + 1, &api);
    let disclosed: Vec<(usize, Scalar)> = disclosed_idx.iter().copied().zip(ms.into_iter()).collect();
    core_proof_verify(s, pk, &p, &gens, header, ph, &disclosed, &api)
}

/// The draft's mocked random scalars (used only for the fixture gate).
pub fn seeded_random_scalars(s: Suite, count: usize, seed: &[u8], dst: &[u8]) -> Vec<Scalar> {
    let v = expand_message(s, seed, dst, EXPAND_LEN * count).unwrap();
    (0..count).map(|i| os2ip_mod_r(&v[i * EXPAND_LEN..(i + 1) * EXPAND_LEN])).collect()
}

// ---------------------------------------------------------------------------------------------
// Blind extension (draft-irtf-cfrg-bbs-blind-signatures-01 with the four pinned deviations)

pub fn blind_generators(s: Suite, count: usize) -> Vec<G1Projective> {
    create_generators(s, count, &cat(&[b"BLIND_", &s.api_id_blind()]))
}

pub fn calculate_blind_challenge(s: Suite, C: &G1Projective, Cbar: &G1Projective, gens: &[G1Projective], api_id: &[u8]) -> R<Scalar> {
    if gens.is_empty() {
        return err("no generators");
    }
    let mut c = Vec::new();
    c.extend_from_slice(&i2osp((gens.len() - 1) as u128, 8));
    for g in gens {
        c.extend_from_slice(&g1_bytes(g));
    }
    c.extend_from_slice(&g1_bytes(C));
    c.extend_from_slice(&g1_bytes(Cbar));
    hash_to_scalar(s, &c, &cat(&[api_id, b"H2S_"]))
}

/// Commit with explicit random scalars (secret_prover_blind, s~, m~_1..m~_M).
pub fn commit(s: Suite, committed: &[Vec<u8>], rnd: &[Scalar]) -> R<(Vec<u8>, Scalar)> {
    let api = s.api_id_blind();
    let ms = messages_to_scalars(s, committed, &api)?;
    let M = ms.len();
    if rnd.len() != M + 2 {
        return err("random scalars");
    }
    let g = blind_generators(s, M + 1);
    let (blind, st) = (rnd[0], rnd[1]);
    let mt = &rnd[2..];
    let mut C = g[0] * blind;
    let mut Cbar = g[0] * st;
    for i in 0..M {
        C += g[i + 1] * ms[i];
        Cbar += g[i + 1] * mt[i];
    }
    let c = calculate_blind_challenge(s, &C, &Cbar, &g, &api)?;
    let mut out = Vec::new();
    out.extend_from_slice(&g1_bytes(&C));
    out.extend_from_slice(&sc_bytes(&(st + blind * c)));
    for i in 0..M {
        out.extend_from_slice(&sc_bytes(&(mt[i] + ms[i] * c)));
    }
    out.extend_from_slice(&sc_bytes(&c));
    Ok((out, blind))
}

/// octets_to_commitment_with_proof + CoreCommitVerify. Returns the commitment point.
/// Empty input -> Identity (no commitment).
pub fn deserialize_and_validate_commit(s: Suite, cwp: &[u8]) -> R<G1Projective> {
    if cwp.is_empty() {
        return Ok(G1Projective::IDENTITY);
    }
    let floor = 48 + 2 * 32;
    if cwp.len() < floor {
        return err("commitment too short");
    }
    if (cwp.len() - floor) % 32 != 0 {
        return err("commitment length not on scalar boundary");
    }
    let C = octets_to_point_g1(&cwp[..48])?;
    let mut sc = Vec::new();
    let mut idx = 48;
    while idx < cwp.len() {
        sc.push(octets_to_scalar_strict(&cwp[idx..idx + 32])?);
        idx += 32;
    }
    let c = sc.pop().unwrap();
    let s_hat = sc[0];
    let m_hat = &sc[1..];
    let M = m_hat.len();
    let api = s.api_id_blind();
    let g = blind_generators(s, M + 1);
    let mut Cbar = g[0] * s_hat;
    for i in 0..M {
        Cbar += g[i + 1] * m_hat[i];
    }
    Cbar += C * (-c);
    let cv = calculate_blind_challenge(s, &C, &Cbar, &g, &api)?;
    if cv != c {
        return err("commitment proof invalid");
    }
    Ok(C)
}

/// Number of committed messages a well-formed commitment_with_proof of this length carries.
pub fn committed_count_from_len(len: usize) -> Option<usize> {
    if len == 0 {
        return Some(0);
    }
    let floor = 48 + 2 * 32;
    if len < floor || (len - floor) % 32 != 0 {
        return None;
    }
    Some((len - floor) / 32)
}

/// Domain generators of the blind interface: H_1..H_L, Q2, J_1..J_M.
pub fn blind_all_generators(s: Suite, L: usize, M: usize) -> Vec<G1Projective> {
    let mut g = create_generators(s, L + 1, &s.api_id_blind());
    g.extend(blind_generators(s, M + 1));
    g
}

pub fn blind_sign(s: Suite, sk: &Scalar, pk: &[u8; 96], cwp: &[u8], header: &[u8], msgs: &[Vec<u8>]) -> R<[u8; 80]> {
    let api = s.api_id_blind();
    let L = msgs.len();
    let commit = deserialize_and_validate_commit(s, cwp)?;
    let M = committed_count_from_len(cwp.len()).ok_or("length")?;
    let ms = messages_to_scalars(s, msgs, &api)?;
    let g = blind_all_generators(s, L, M);
    let Q1 = g[0];
    let H = &g[1..];
    // deviation 1: B starts from P1;  deviation 2: domain over H_1..H_L, Q2, J_1..J_M
    let domain = calculate_domain(s, pk, &Q1, H, header, &api)?;
    let mut B = s.p1();
    for i in 0..L {
        B += H[i] * ms[i];
    }
    B += commit;
    if bool::from(B.is_identity()) {
        return err("B identity");
    }
    let B = B + Q1 * domain;
    // deviation 3: e = H(sk || B)
    let e = hash_to_scalar(s, &cat(&[&sc_bytes(sk), &g1_bytes(&B)]), &cat(&[&api, b"H2S_"]))?;
    let inv = Option::<Scalar>::from((sk + e).invert()).ok_or("sk+e=0")?;
    let A = B * inv;
    let mut out = [0u8; 80];
    out[..48].copy_from_slice(&g1_bytes(&A));
    out[48..].copy_from_slice(&sc_bytes(&e));
    Ok(out)
}

pub fn verify_blind_sign(
    s: Suite,
    pk: &[u8],
    sig: &[u8],
    header: &[u8],
    msgs: &[Vec<u8>],
    committed: &[Vec<u8>],
    blind: &Scalar,
) -> R<()> {
    let api = s.api_id_blind();
    let mut ms = messages_to_scalars(s, msgs, &api)?;
    ms.push(*blind);
    ms.extend(messages_to_scalars(s, committed, &api)?);
    let g = blind_all_generators(s, msgs.len(), committed.len());
    core_verify(s, pk, sig, &g, header, &ms, &api)
}

#[allow(clippy::too_many_arguments)]
pub fn blind_proof_gen(
    s: Suite,
    pk: &[u8; 96],
    sig: &[u8],
    header: &[u8],
    ph: &[u8],
    msgs: &[Vec<u8>],
    committed: &[Vec<u8>],
    idx: &[usize],
    cidx: &[usize],
    blind: &Scalar,
    rnd: &[Scalar],
) -> R<Vec<u8>> {
    let api = s.api_id_blind();
    let L = msgs.len();
    let M = committed.len();
    if idx.iter().any(|&i| i >= L) || cidx.iter().any(|&j| j >= M) {
        return err("index out of range");
    }
    let mut ms = messages_to_scalars(s, msgs, &api)?;
    ms.push(*blind);
    ms.extend(messages_to_scalars(s, committed, &api)?);
    let g = blind_all_generators(s, L, M);
    let all_idx: Vec<usize> = idx.iter().copied().chain(cidx.iter().map(|j| j + L + 1)).collect();
    Ok(core_proof_gen(s, pk, sig, &g, header, ph, &ms, &all_idx, &api, rnd)?.to_octets())
}

#[allow(clippy::too_many_arguments)]
pub fn blind_proof_verify(
    s: Suite,
    pk: &[u8],
    proof: &[u8],
    header: &[u8],
    ph: &[u8],
    L: usize,
    dmsgs: &[Vec<u8>],
    dcmsgs: &[Vec<u8>],
    idx: &[usize],
    cidx: &[usize],
) -> R<()> {
    let api = s.api_id_blind();
    let p = octets_to_proof(proof)?;
    if dmsgs.len() != idx.len() || dcmsgs.len() != cidx.len() {
        return err("len(messages) != len(indexes)");
    }
    let N = p.m_hat.len() + idx.len() + cidx.len();
    // N = L + 1 + M  (the blinding factor occupies position L and is never disclosed)
    let M = N.checked_sub(L).and_then(|x| x.checked_sub(1)).ok_or("L too large for this proof")?;
    if idx.iter().any(|&i| i >= L) || cidx.iter().any(|&j| j >= M) {
        return err("index out of range");
    }
    let mut ms = messages_to_scalars(s, dmsgs, &api)?;
    ms.extend(messages_to_scalars(s, dcmsgs, &api)?);
    let g = blind_all_generators(s, L, M);
    let all_idx: Vec<usize> = idx.iter().copied().chain(cidx.iter().map(|j| j + L + 1)).collect();
    let disclosed: Vec<(usize, Scalar)> = all_idx.into_iter().zip(ms.into_iter()).collect();
    core_proof_verify(s, pk, &p, &g, header, ph, &disclosed, &api)
}

// ---------------------------------------------------------------------------------------------
// update_signature reference formula: A' = (B(sig) - H_i*old + H_i*new) / (sk + e), with B(sig) = A*(sk+e)

pub fn update_signature(s: Suite, sk: &Scalar, sig: &[u8], old: &[u8], new: &[u8], i: usize, n: usize) -> R<[u8; 80]> {
    if i >= n {
        return err("index out of range");
    }
    let (A, e) = octets_to_signature(sig)?;
    let api = s.api_id();
    let H_i = create_generators(s, i + 2, &api)[i + 1];
    let map_dst = cat(&[&api, b"MAP_MSG_TO_SCALAR_AS_HASH_"]);
    let o = hash_to_scalar(s, old, &map_dst)?;
    let nw = hash_to_scalar(s, new, &map_dst)?;
    let ske = sk + e;
    let inv = Option::<Scalar>::from(ske.invert()).ok_or("sk+e=0")?;
    let A2 = (A * ske - H_i * o + H_i * nw) * inv;
    if bool::from(A2.is_identity()) {
        return err("A identity");
    }
    let mut out = [0u8; 80];
    out[..48].copy_from_slice(&g1_bytes(&A2));
    out[48..].copy_from_slice(&sc_bytes(&e));
    Ok(out)
}

pub fn random_scalar_from(seed: &[u8], label: &[u8], k: u64) -> Scalar {
    // deterministic non-zero scalar for the reference's own proofs (not security relevant)
    let mut h = Sha256::new();
    Digest::update(&mut h, seed);
    Digest::update(&mut h, label);
    Digest::update(&mut h, k.to_be_bytes());
    let a = h.finalize();
    let mut h2 = Sha256::new();
    Digest::update(&mut h2, a);
    Digest::update(&mut h2, b"2");
    let b = h2.finalize();
    let x = os2ip_mod_r(&[a.as_slice(), &b[..16]].concat());
    if x == Scalar::ZERO { Scalar::ONE } else { x }
}

pub fn g1_generator() -> G1Projective {
    G1Projective::generator()
}
