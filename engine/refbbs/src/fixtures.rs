//! Fixture gate: the reference must reproduce every file under fixture_data/ and fixture_data_blind/
//! before any differential verdict against it is believed.
#![allow(non_snake_case)]
use crate::*;
use serde_json::Value;
use std::path::Path;

fn hx(v: &Value) -> Vec<u8> {
    hex::decode(v.as_str().unwrap_or("")).expect("hex")
}
fn hx_opt(v: &Value) -> Option<Vec<u8>> {
    v.as_str().map(|s| hex::decode(s).expect("hex"))
}
fn sc(v: &Value) -> Scalar {
    let b: [u8; 32] = hx(v).try_into().expect("scalar len");
    Scalar::from_be_bytes(&b).unwrap()
}
fn load(p: &Path) -> Value {
    serde_json::from_str(&std::fs::read_to_string(p).unwrap_or_else(|e| panic!("read {:?}: {}", p, e))).expect("json")
}
fn msgs(v: &Value) -> Vec<Vec<u8>> {
    v.as_array().map(|a| a.iter().map(hx).collect()).unwrap_or_default()
}
fn proof_rnd(t: &Value) -> Vec<Scalar> {
    let r = &t["random_scalars"];
    let mut v = vec![sc(&r["r1"]), sc(&r["r2"]), sc(&r["e_tilde"]), sc(&r["r1_tilde"]), sc(&r["r3_tilde"])];
    for m in r["m_tilde_scalars"].as_array().unwrap() {
        v.push(sc(m));
    }
    v
}
fn revealed(v: &Value) -> Option<(Vec<usize>, Vec<Vec<u8>>)> {
    v.as_object().map(|o| {
        let mut e: Vec<(usize, Vec<u8>)> = o.iter().map(|(k, m)| (k.parse().unwrap(), hx(m))).collect();
        e.sort_by_key(|x| x.0);
        (e.iter().map(|x| x.0).collect(), e.into_iter().map(|x| x.1).collect())
    })
}

pub struct GateReport {
    pub files: usize,
    pub checks: usize,
}

macro_rules! ensure {
    ($cond:expr, $($arg:tt)*) => { if !($cond) { return Err(format!($($arg)*)); } };
}

pub fn gate(repo: &Path) -> Result<GateReport, String> {
    let mut files = 0usize;
    let mut checks = 0usize;
    for s in SUITES {
        let dir = match s {
            Suite::Sha256 => "bls12-381-sha-256",
            Suite::Shake256 => "bls12-381-shake-256",
        };
        let p = repo.join("fixture_data").join(dir);
        let pb = repo.join("fixture_data_blind").join(dir);

        // keypair
        let k = load(&p.join("keypair.json"));
        files += 1;
        let sk = keygen(s, &hx(&k["keyMaterial"]), &hx(&k["keyInfo"]), Some(&hx(&k["keyDst"])))?;
        ensure!(sc_bytes(&sk).to_vec() == hx(&k["keyPair"]["secretKey"]), "{dir} keypair sk");
        ensure!(sk_to_pk(&sk).to_vec() == hx(&k["keyPair"]["publicKey"]), "{dir} keypair pk");
        ensure!(hx(&k["keyDst"]) == cat(&[&s.api_id(), b"KEYGEN_DST_"]), "{dir} keyDst is api_id||KEYGEN_DST_");
        let sk2 = keygen(s, &hx(&k["keyMaterial"]), &hx(&k["keyInfo"]), None)?;
        ensure!(sk2 == sk, "{dir} default key_dst");
        checks += 4;

        // generators
        let g = load(&p.join("generators.json"));
        files += 1;
        let gl = g["MsgGenerators"].as_array().unwrap();
        let gens = create_generators(s, gl.len() + 1, &s.api_id());
        ensure!(g1_bytes(&s.p1()).to_vec() == hx(&g["P1"]), "{dir} P1");
        ensure!(g1_bytes(&gens[0]).to_vec() == hx(&g["Q1"]), "{dir} Q1");
        for (i, x) in gl.iter().enumerate() {
            ensure!(g1_bytes(&gens[i + 1]).to_vec() == hx(x), "{dir} H_{i}");
        }
        checks += 2 + gl.len();

        // h2s
        let h = load(&p.join("h2s.json"));
        files += 1;
        ensure!(sc_bytes(&hash_to_scalar(s, &hx(&h["message"]), &hx(&h["dst"]))?).to_vec() == hx(&h["scalar"]), "{dir} h2s");
        checks += 1;

        // MapMessageToScalarAsHash
        let m = load(&p.join("MapMessageToScalarAsHash.json"));
        files += 1;
        ensure!(hx(&m["dst"]) == cat(&[&s.api_id(), b"MAP_MSG_TO_SCALAR_AS_HASH_"]), "{dir} map dst");
        for c in m["cases"].as_array().unwrap() {
            let r = messages_to_scalars(s, &[hx(&c["message"])], &s.api_id())?;
            ensure!(sc_bytes(&r[0]).to_vec() == hx(&c["scalar"]), "{dir} map message");
            checks += 1;
        }

        // mocked rng
        let r = load(&p.join("mockedRng.json"));
        files += 1;
        let cnt = r["count"].as_u64().unwrap() as usize;
        let got = seeded_random_scalars(s, cnt, &hx(&r["seed"]), &hx(&r["dst"]));
        for (i, x) in r["mockedScalars"].as_array().unwrap().iter().enumerate() {
            ensure!(sc_bytes(&got[i]).to_vec() == hx(x), "{dir} mocked scalar {i}");
            checks += 1;
        }

        // signatures
        for n in 1..=10 {
            let f = load(&p.join(format!("signature/signature{:03}.json", n)));
            files += 1;
            let sk = sc(&f["signerKeyPair"]["secretKey"]);
            let pk = hx(&f["signerKeyPair"]["publicKey"]);
            let header = hx(&f["header"]);
            let ms = msgs(&f["messages"]);
            let sig = hx(&f["signature"]);
            let valid = f["result"]["valid"].as_bool().unwrap();
            let v = verify(s, &pk, &sig, &header, &ms);
            ensure!(v.is_ok() == valid, "{dir} signature{n} verify {:?} expected {valid}", v);
            checks += 1;
            if valid {
                let pk96: [u8; 96] = pk.clone().try_into().unwrap();
                let mine = sign(s, &sk, &pk96, &header, &ms)?;
                ensure!(mine.to_vec() == sig, "{dir} signature{n} bytes");
                // trace
                let api = s.api_id();
                let gens = create_generators(s, ms.len() + 1, &api);
                let d = calculate_domain(s, &pk96, &gens[0], &gens[1..], &header, &api)?;
                ensure!(sc_bytes(&d).to_vec() == hx(&f["trace"]["domain"]), "{dir} signature{n} domain");
                checks += 2;
            }
        }

        // proofs
        for n in 1..=15 {
            let f = load(&p.join(format!("proof/proof{:03}.json", n)));
            files += 1;
            let pk = hx(&f["signerPublicKey"]);
            let header = hx(&f["header"]);
            let ph = hx(&f["presentationHeader"]);
            let ms = msgs(&f["messages"]);
            let idx: Vec<usize> = f["disclosedIndexes"].as_array().unwrap().iter().map(|x| x.as_u64().unwrap() as usize).collect();
            let proof = hx(&f["proof"]);
            let valid = f["result"]["valid"].as_bool().unwrap();
            let dm: Vec<Vec<u8>> = idx.iter().filter(|&&i| i < ms.len()).map(|&i| ms[i].clone()).collect();
            let v = if dm.len() == idx.len() { proof_verify(s, &pk, &proof, &header, &ph, &dm, &idx) } else { Err("index".into()) };
            ensure!(v.is_ok() == valid, "{dir} proof{n} verify {:?} expected {valid}", v);
            checks += 1;
            if valid {
                let pk96: [u8; 96] = pk.clone().try_into().unwrap();
                let mine = proof_gen(s, &pk96, &hx(&f["signature"]), &header, &ph, &ms, &idx, &proof_rnd(&f["trace"]))?;
                ensure!(mine == proof, "{dir} proof{n} bytes");
                checks += 1;
            }
        }

        // blind generators
        let g = load(&pb.join("generators.json"));
        files += 1;
        let gg = &g["generators"];
        ensure!(hx_ascii(&gg["api_id"]) == s.api_id_blind(), "{dir} blind api_id");
        let gl = gg["MsgGenerators"].as_array().unwrap();
        let gens = create_generators(s, gl.len() + 1, &s.api_id_blind());
        ensure!(g1_bytes(&gens[0]).to_vec() == hx(&gg["Q1"]), "{dir} blind Q1");
        for (i, x) in gl.iter().enumerate() {
            ensure!(g1_bytes(&gens[i + 1]).to_vec() == hx(x), "{dir} blind H_{i}");
        }
        let bg = &g["blindGenerators"];
        ensure!(hx_ascii(&bg["api_id"]) == cat(&[b"BLIND_", &s.api_id_blind()]), "{dir} blind-generators api_id");
        let bl = bg["MsgGenerators"].as_array().unwrap();
        let bgens = blind_generators(s, bl.len() + 1);
        ensure!(g1_bytes(&bgens[0]).to_vec() == hx(&bg["Q1"]), "{dir} Q2");
        for (i, x) in bl.iter().enumerate() {
            ensure!(g1_bytes(&bgens[i + 1]).to_vec() == hx(x), "{dir} J_{i}");
        }
        checks += 4 + gl.len() + bl.len();

        // commitments
        for n in 1..=2 {
            let f = load(&pb.join(format!("commit/commit{:03}.json", n)));
            files += 1;
            let cm = msgs(&f["committedMessages"]);
            let mut rnd = vec![sc(&f["proverBlind"]), sc(&f["trace"]["random_scalars"]["s_tilde"])];
            for m in f["trace"]["random_scalars"]["m_tildes"].as_array().unwrap() {
                rnd.push(sc(m));
            }
            let (bytes, _) = commit(s, &cm, &rnd)?;
            ensure!(bytes == hx(&f["commitmentWithProof"]), "{dir} commit{n} bytes");
            ensure!(deserialize_and_validate_commit(s, &bytes).is_ok(), "{dir} commit{n} validates");
            // the mocked scalars of the fixture
            let dst = f["mockRngParameters"]["commit"]["DST"].as_str().unwrap().as_bytes().to_vec();
            let seed = f["mockRngParameters"]["SEED"].as_str().unwrap().as_bytes().to_vec();
            let mock = seeded_random_scalars(s, cm.len() + 2, &seed, &dst);
            ensure!(mock == rnd, "{dir} commit{n} mocked scalars");
            checks += 3;
        }

        // blind signatures
        for n in 1..=5 {
            let f = load(&pb.join(format!("signature/signature{:03}.json", n)));
            files += 1;
            let sk = sc(&f["signerKeyPair"]["secretKey"]);
            let pk = hx(&f["signerKeyPair"]["publicKey"]);
            let pk96: [u8; 96] = pk.clone().try_into().unwrap();
            let header = hx(&f["header"]);
            let ms = msgs(&f["messages"]);
            let cm = msgs(&f["committedMessages"]);
            let cwp = hx_opt(&f["commitmentWithProof"]).unwrap_or_default();
            let blind = f["proverBlind"].as_str().map(|_| sc(&f["proverBlind"])).unwrap_or(Scalar::ZERO);
            let sig = blind_sign(s, &sk, &pk96, &cwp, &header, &ms)?;
            ensure!(sig.to_vec() == hx(&f["signature"]), "{dir} blind signature{n} bytes");
            let v = verify_blind_sign(s, &pk, &sig, &header, &ms, &cm, &blind);
            ensure!(v.is_ok() == f["result"]["valid"].as_bool().unwrap(), "{dir} blind signature{n} verify {:?}", v);
            checks += 2;
        }

        // blind proofs
        let all = load(&repo.join("fixture_data_blind").join("messages.json"));
        for n in 1..=8 {
            let f = load(&pb.join(format!("proof/proof{:03}.json", n)));
            files += 1;
            let pk = hx(&f["signerPublicKey"]);
            let pk96: [u8; 96] = pk.clone().try_into().unwrap();
            let header = hx(&f["header"]);
            let ph = hx(&f["presentationHeader"]);
            let L = f["L"].as_u64().unwrap() as usize;
            let ms = msgs(&all["messages"]);
            let (idx, dm) = revealed(&f["revealedMessages"]).unwrap_or_default();
            let rc = revealed(&f["revealedCommittedMessages"]);
            let cm = if rc.is_some() { msgs(&all["committedMessages"]) } else { vec![] };
            let (cidx, dcm) = rc.unwrap_or_default();
            let blind = f["proverBlind"].as_str().map(|_| sc(&f["proverBlind"])).unwrap_or(Scalar::ZERO);
            let proof = hx(&f["proof"]);
            let mine = blind_proof_gen(s, &pk96, &hx(&f["signature"]), &header, &ph, &ms, &cm, &idx, &cidx, &blind, &proof_rnd(&f["trace"]))?;
            ensure!(mine == proof, "{dir} blind proof{n} bytes");
            let v = blind_proof_verify(s, &pk, &proof, &header, &ph, L, &dm, &dcm, &idx, &cidx);
            ensure!(v.is_ok() == f["result"]["valid"].as_bool().unwrap(), "{dir} blind proof{n} verify {:?}", v);
            checks += 2;
        }
    }
    Ok(GateReport { files, checks })
}

fn hx_ascii(v: &Value) -> Vec<u8> {
    v.as_str().unwrap().as_bytes().to_vec()
}
