use zkryptium::schemes::algorithms::*; use zkryptium::schemes::generics::*; use zkryptium::keys::pair::KeyPair;
fn main(){
  let kp = KeyPair::<BbsBls12381Sha256>::generate(&[0u8;32],None,None).unwrap();
  let msgs=vec![vec![1u8],vec![2u8]];
  let s=Signature::<BbsBls12381Sha256>::sign(Some(&msgs),kp.private_key(),kp.public_key(),None).unwrap();
  println!("{}",serde_json::to_string(&s).unwrap());
  let p=PoKSignature::<BbsBls12381Sha256>::proof_gen(kp.public_key(),&s.to_bytes(),None,None,Some(&msgs),Some(&[0])).unwrap();
  println!("{}",serde_json::to_string(&p).unwrap());
  println!("{}",serde_json::to_string(&kp).unwrap());
  let (c,b)=Commitment::<BbsBls12381Sha256>::commit(Some(&msgs)).unwrap();
  println!("{}",serde_json::to_string(&c).unwrap());
  let _=b;
}
