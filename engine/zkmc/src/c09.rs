//! C09 — encodings are canonical and strict: round trips through every codec for explored objects; canonicity
//! (decode(b) = Ok(x) => encode(x) = b) over honest encodings, all single-bit flips, extensions by 1..=64 octets and
//! every truncation; forbidden scalar / point classes per slot must be rejected; decisions compared with the
//! reference decoders written from octets_to_{pubkey,signature,proof}.
#![allow(non_snake_case)]
use crate::c08::{honest_octets, kind_name};
use crate::common::*;
use crate::worker::{base, Base};
use crate::zk::{Kind, Zk, KINDS};
use bls12_381_plus::{G1Affine, G2Affine};
use mccore::{par_for, O};
use refbbs::Suite;
use serde_json::{json, Value};

const R_BE: &str = "73eda753299d7d483339d80809a1d80553bda402fffe5bfeffffffff00000001";
const P_BE: &str = "1a0111ea397fe69a4b1ba7b6434bacd764774b84f38512bf6730d2a0f6b0f6241eabfffeb153ffffb9feffffffffaaab";

fn r_plus(k: u8) -> Vec<u8> { let mut b = hex::decode(R_BE).unwrap(); let mut c = k as u16; for i in (0..32).rev() { let s = b[i] as u16 + c; b[i] = s as u8; c = s >> 8; } b }

/// forbidden G1 encodings (48 octets), each with a name
fn bad_g1() -> Vec<(&'static str, Vec<u8>, bool)> {
    // (name, bytes, is_identity) — identity is forbidden only in some slots
    let mut v: Vec<(&'static str, Vec<u8>, bool)> = Vec::new();
    let mut id = vec![0u8; 48]; id[0] = 0xc0; v.push(("identity", id.clone(), true));
    let mut idx = id.clone(); idx[47] = 1; v.push(("identity flag with non-zero x", idx, false));
    let g = G1Affine::generator().to_compressed().to_vec();
    let mut nc = g.clone(); nc[0] &= 0x7f; v.push(("compression flag cleared", nc, false));
    let mut xp = hex::decode(P_BE).unwrap(); xp[0] |= 0x80; v.push(("x = p (not reduced)", xp, false));
    // x off curve / on curve outside the subgroup, by scanning small x
    let mut off = None; let mut nosub = None;
    for x in 1u32..2000 {
        let mut b = vec![0u8; 48]; b[44..].copy_from_slice(&x.to_be_bytes()); b[0] |= 0x80;
        let a: [u8; 48] = b.clone().try_into().unwrap();
        let p = G1Affine::from_compressed_unchecked(&a);
        if bool::from(p.is_none()) { if off.is_none() { off = Some(b); } }
        else if !bool::from(p.unwrap().is_torsion_free()) && nosub.is_none() { nosub = Some(b); }
        if off.is_some() && nosub.is_some() { break; }
    }
    v.push(("x not on the curve", off.expect("off-curve x"), false));
    v.push(("on curve, outside the prime-order subgroup", nosub.expect("non-subgroup point"), false));
    v
}
fn bad_g2() -> Vec<(&'static str, Vec<u8>, bool)> {
    let mut v: Vec<(&'static str, Vec<u8>, bool)> = Vec::new();
    let mut id = vec![0u8; 96]; id[0] = 0xc0; v.push(("identity", id.clone(), true));
    let mut idx = id.clone(); idx[95] = 1; v.push(("identity flag with non-zero x", idx, false));
    let g = G2Affine::generator().to_compressed().to_vec();
    let mut nc = g.clone(); nc[0] &= 0x7f; v.push(("compression flag cleared", nc, false));
    let mut xp = vec![0u8; 96]; xp[..48].copy_from_slice(&hex::decode(P_BE).unwrap()); xp[0] |= 0x80; v.push(("x.c1 = p (not reduced)", xp, false));
    let mut off = None; let mut nosub = None;
    for x in 1u32..2000 {
        let mut b = vec![0u8; 96]; b[92..].copy_from_slice(&x.to_be_bytes()); b[0] |= 0x80;
        let a: [u8; 96] = b.clone().try_into().unwrap();
        let p = G2Affine::from_compressed_unchecked(&a);
        if bool::from(p.is_none()) { if off.is_none() { off = Some(b); } }
        else if !bool::from(p.unwrap().is_torsion_free()) && nosub.is_none() { nosub = Some(b); }
        if off.is_some() && nosub.is_some() { break; }
    }
    v.push(("x not on the curve", off.expect("off-curve x"), false));
    v.push(("on curve, outside the prime-order subgroup", nosub.expect("non-subgroup point"), false));
    v
}
fn bad_scalars() -> Vec<(&'static str, Vec<u8>, bool)> {
    // (name, bytes, is_zero)
    vec![("r", r_plus(0), false), ("r+1", r_plus(1), false), ("2^256-1", vec![0xff; 32], false), ("zero", vec![0u8; 32], true)]
}

fn dec(zk: &dyn Zk, k: Kind, b: &[u8]) -> O<Vec<u8>> {
    match k { Kind::Pk => zk.dec_pk(b), Kind::Sk => zk.dec_sk(b), Kind::Sig => zk.dec_sig(b), Kind::BlindSig => zk.dec_blind_sig(b), Kind::Proof => zk.dec_proof(b), Kind::Commitment => zk.dec_commitment(b) }
}
/// reference decision: Some(true) accept, Some(false) reject, None = outside what the drafts / the property pin down
fn ref_dec(s: Suite, k: Kind, b: &[u8]) -> Option<bool> {
    match k {
        Kind::Pk => Some(refbbs::octets_to_pubkey(b).is_ok()),
        Kind::Sk => Some(refbbs::octets_to_scalar_strict(b).is_ok()),
        Kind::Sig | Kind::BlindSig => Some(refbbs::octets_to_signature(b).is_ok()),
        Kind::Proof => {
            // zero response scalars: INVALID in the draft, not named by the property => don't care
            if b.len() >= 272 && (b.len() - 272) % 32 == 0 && b[144..].chunks(32).any(|c| c.iter().all(|&x| x == 0)) { return None; }
            Some(refbbs::octets_to_proof(b).is_ok())
        }
        Kind::Commitment => {
            let _ = s;
            if b.len() < 112 || (b.len() - 112) % 32 != 0 { return Some(false); }
            if b[0] == 0xc0 && b[1..48].iter().all(|&x| x == 0) { return None; } // identity commitment: not pinned
            let okp = refbbs::octets_to_point_g1(&b[..48]).is_ok();
            let oks = b[48..].chunks(32).all(|c| refbbs::octets_to_scalar_strict(c).is_ok());
            Some(okp && oks)
        }
    }
}

struct Item { id: String, suite: Suite, kind: Kind, honest: Vec<u8>, what: &'static str }

pub fn run(env: &Env) {
    env.ctx.set_rule("objects: keys k0..k2, signatures, blind signatures, proofs (U in 0..=3), commitments (M in 0..=2), blinding factors, both suites. (1) round trip through octets, public-key coordinates and serde_json; (2) canonicity: for the honest encoding, ALL its single-bit flips, ALL extensions by 1..=64 octets with fillers {00, ff, copy of tail} and EVERY truncation: decode(b) = Ok(x) => encode(x) = b, and accept/reject equals the reference decoder; (3) forbidden classes in every slot: scalars {r, r+1, 2^256-1} (and 0 for e), points {identity where forbidden, identity flag with x != 0, compression flag cleared, x >= p, x off curve, on-curve point outside the subgroup} for G1 and G2, through octets, coordinates and JSON. State = (object, encoded string); non-trivial = the real decoder ran on it.");
    let mut items: Vec<Item> = Vec::new();
    for s in suites() {
        let b: Base = base(s);
        for k in KINDS { items.push(Item { id: format!("{}/{}/canonicity", s.name(), kind_name(k)), suite: s, kind: k, honest: honest_octets(&b, k), what: "canonicity" }); }
        items.push(Item { id: format!("{}/proof-U0/canonicity", s.name()), suite: s, kind: Kind::Proof, honest: z(s).proof_gen(&b.key.pk, &b.sig, Some(&b.header), Some(&b.ph), Some(&b.msgs), Some(&[0, 1, 2])).ok().unwrap(), what: "canonicity" });
        items.push(Item { id: format!("{}/commitment-M0/canonicity", s.name()), suite: s, kind: Kind::Commitment, honest: z(s).commit(None).ok().unwrap().0, what: "canonicity" });
        items.push(Item { id: format!("{}/roundtrips", s.name()), suite: s, kind: Kind::Pk, honest: vec![], what: "roundtrips" });
        items.push(Item { id: format!("{}/forbidden", s.name()), suite: s, kind: Kind::Pk, honest: vec![], what: "forbidden" });
    }
    par_for(&items, |_, it| {
        if !env.want(&it.id) || env.ctx.out_of_time() { return; }
        match it.what { "canonicity" => canonicity(env, it), "roundtrips" => roundtrips(env, it), _ => forbidden(env, it) }
    });
}

fn judge(env: &Env, it: &Item, k: Kind, name: &str, cls: &str, b: &[u8]) {
    if !env.ctx.state(&[it.id.as_bytes(), kind_name(k).as_bytes(), b]) { return; }
    let zk = z(it.suite);
    let got = dec(zk, k, b);
    env.ctx.step();
    let det = json!({"suite": it.suite.name(), "kind": kind_name(k), "input": name, "octets": hex::encode(b)});
    match &got {
        O::Panic(p) => env.ctx.violation(&format!("C09:{}:{}:panic", kind_name(k), cls), &format!("decoder panicked on {}: {}", name, p), env.case(&it.id, det.clone())),
        O::Ok(re) => {
            if re != b { env.ctx.violation(&format!("C09:{}:{}:non-canonical-accepted", kind_name(k), cls), &format!("{}: decode(b) = Ok(x) but encode(x) != b (|b|={}, |encode(x)|={})", name, b.len(), re.len()), env.case(&it.id, det.clone())); }
            if ref_dec(it.suite, k, b) == Some(false) { env.ctx.violation(&format!("C09:{}:{}:accepted-but-reference-rejects", kind_name(k), cls), &format!("{}: accepted, reference decoder rejects", name), env.case(&it.id, det.clone())); }
            env.ctx.class(&format!("{}:accept", cls));
        }
        O::Err(_) => {
            if ref_dec(it.suite, k, b) == Some(true) { env.ctx.violation(&format!("C09:{}:{}:rejected-but-reference-accepts", kind_name(k), cls), &format!("{}: rejected, reference decoder accepts", name), env.case(&it.id, det.clone())); }
            env.ctx.class(&format!("{}:reject", cls));
        }
    }
    env.ctx.trace();
}

fn canonicity(env: &Env, it: &Item) {
    let h = &it.honest;
    let k = it.kind;
    judge(env, it, k, "honest encoding", "honest", h);
    if dec(z(it.suite), k, h).ok().as_deref() != Some(&h[..]) { env.ctx.violation(&format!("C09:{}:honest:roundtrip", kind_name(k)), "decode(encode(x)) != x for an honest object", env.case(&it.id, json!({"octets": hex::encode(h)}))); }
    for bit in 0..h.len() * 8 { judge(env, it, k, &format!("flip bit {}", bit), "bitflip", &flip(h, bit)); }
    for n in 1..=64usize {
        for (fname, f) in [("00", 0u8), ("ff", 0xff)] { let mut b = h.clone(); b.extend(vec![f; n]); judge(env, it, k, &format!("extended by {} x {}", n, fname), "extension", &b); }
        let mut b = h.clone(); let tail: Vec<u8> = h[h.len() - n.min(h.len())..].to_vec(); b.extend(tail); judge(env, it, k, &format!("extended by a copy of the last {} octets", n), "extension", &b);
    }
    for n in 0..h.len() { judge(env, it, k, &format!("truncated to {} octets", n), "truncation", &h[..n]); }
    env.ctx.sample(json!({"root": it.id, "honest_len": h.len()}));
}

fn roundtrips(env: &Env, it: &Item) {
    let s = it.suite;
    let zk = z(s);
    let seed = env.ctx.seed;
    let mut objs: Vec<(Kind, String, Vec<u8>)> = Vec::new();
    for k in keys(s) {
        objs.push((Kind::Pk, format!("pk {}", k.id), k.pk.clone()));
        objs.push((Kind::Sk, format!("sk {}", k.id), k.sk.clone()));
        for l in [0usize, 1, 3] {
            let msgs = distinct_msgs(seed, "c09", l);
            if let O::Ok(sig) = zk.sign(&k.sk, &k.pk, Some(b"h"), Some(&msgs)) {
                objs.push((Kind::Sig, format!("sig {} L{}", k.id, l), sig.clone()));
                for d in mccore::subsets(l) { if let O::Ok(p) = zk.proof_gen(&k.pk, &sig, Some(b"h"), None, Some(&msgs), Some(&d)) { objs.push((Kind::Proof, format!("proof {} L{} D{:?}", k.id, l, d), p)); } }
            }
            for m in 0..=2usize {
                let cms = distinct_msgs(seed, "c09c", m);
                if let O::Ok((c, _b)) = zk.commit(Some(&cms)) {
                    objs.push((Kind::Commitment, format!("commitment M{}", m), c.clone()));
                    if let O::Ok(bs) = zk.blind_sign(&k.sk, &k.pk, Some(&c), None, Some(&msgs)) { objs.push((Kind::BlindSig, format!("blind sig {} L{} M{}", k.id, l, m), bs)); }
                }
            }
        }
    }
    // encodings on both sides of 2^16 octets (a 16-bit length anywhere in a codec shows here): proofs of 65 520 / 65 552 / 65 712
    // octets and commitments of 65 520 / 65 552 octets
    {
        let k = key(s, "k0"); let l = 2045usize;
        let msgs = distinct_msgs(seed, "c09-big", l);
        if let O::Ok(sig) = zk.sign(&k.sk, &k.pk, Some(b"h"), Some(&msgs)) {
            for d in [(0..6).collect::<Vec<usize>>(), (0..5).collect(), vec![]] { match zk.proof_gen(&k.pk, &sig, Some(b"h"), None, Some(&msgs), Some(&d)) { O::Ok(p) => objs.push((Kind::Proof, format!("proof k0 L{} |D|={} ({} octets)", l, d.len(), p.len()), p)), o => env.ctx.violation("C09:proof:large:proof_gen", &o.describe(), env.case(&it.id, json!({"L": l, "disclosed": d.len()}))) } }
        }
        for m in [2044usize, 2045] { match zk.commit(Some(&msgs[..m])) { O::Ok((c, _)) => objs.push((Kind::Commitment, format!("commitment M{} ({} octets)", m, c.len()), c)), o => env.ctx.violation("C09:commitment:large:commit", &o.describe(), env.case(&it.id, json!({"M": m}))) } }
    }
    for (k, name, b) in objs {
        if !env.ctx.state(&[it.id.as_bytes(), kind_name(k).as_bytes(), &b]) { continue; }
        let det = json!({"suite": s.name(), "object": name, "octets": hex::encode(&b)});
        let o = dec(zk, k, &b); env.ctx.step();
        if o.clone().ok().as_deref() != Some(&b[..]) { env.ctx.violation(&format!("C09:{}:roundtrip:octets", kind_name(k)), &format!("{}: {}", name, o.describe()), env.case(&it.id, det.clone())); }
        let j = zk.json_of(k, &b); env.ctx.step();
        match j {
            O::Ok(js) => { let back = zk.octets_of_json(k, &js); env.ctx.step(); if back.clone().ok().as_deref() != Some(&b[..]) { env.ctx.violation(&format!("C09:{}:roundtrip:json", kind_name(k)), &format!("{}: {}", name, back.describe()), env.case(&it.id, det.clone())); } }
            o => env.ctx.violation(&format!("C09:{}:roundtrip:json-encode", kind_name(k)), &format!("{}: {}", name, o.describe()), env.case(&it.id, det.clone())),
        }
        if k == Kind::Pk { let c = zk.pk_coords_roundtrip(&b); env.ctx.step(); if c.clone().ok().as_deref() != Some(&b[..]) { env.ctx.violation("C09:pk:roundtrip:coordinates", &format!("{}: {}", name, c.describe()), env.case(&it.id, det.clone())); } }
        env.ctx.class(&format!("roundtrip:{}", kind_name(k)));
        env.ctx.trace();
    }
    // blinding factors
    for i in 0..8 { if let O::Ok(b) = zk.random_blind_factor() { env.ctx.state(&[it.id.as_bytes(), &b]); let r = zk.dec_blind_factor(&b); env.ctx.step(); if r.clone().ok().as_deref() != Some(&b[..]) { env.ctx.violation("C09:blind-factor:roundtrip", &r.describe(), env.case(&it.id, json!({"i": i}))); } env.ctx.trace(); } }
    match zk.keygen_json_roundtrip(&[7u8; 32]) { O::Ok(true) => {}, o => env.ctx.violation("C09:keypair:roundtrip:json", &format!("{:?}", o.describe()), env.case(&it.id, json!({}))) }
}

fn forbidden(env: &Env, it: &Item) {
    let s = it.suite;
    let zk = z(s);
    let b = base(s);
    let expect_err = |k: Kind, slot: &str, name: &str, bytes: &[u8], via: &str, got: O<Vec<u8>>| {
        if !env.ctx.state(&[it.id.as_bytes(), via.as_bytes(), kind_name(k).as_bytes(), slot.as_bytes(), bytes]) { return; }
        env.ctx.step();
        let det = json!({"suite": s.name(), "kind": kind_name(k), "slot": slot, "forbidden": name, "via": via, "octets": hex::encode(bytes)});
        match got {
            O::Err(_) => env.ctx.class(&format!("forbidden:{}:rejected", via)),
            O::Ok(_) => env.ctx.violation(&format!("C09:{}:forbidden:{}:{}:accepted", kind_name(k), via, if name == "identity" || name == "zero" { name } else { "malformed" }), &format!("{} slot {} := {} accepted via {}", kind_name(k), slot, name, via), env.case(&it.id, det)),
            O::Panic(p) => env.ctx.violation(&format!("C09:{}:forbidden:{}:panic", kind_name(k), via), &format!("{} slot {} := {}: {}", kind_name(k), slot, name, p), env.case(&it.id, det)),
        }
        env.ctx.trace();
    };
    // JSON form of each honest object, to substitute leaves
    let jsub = |k: Kind, path: &[&str], val: &[u8], le: bool| -> Option<String> {
        let j = zk.json_of(k, &honest_octets(&b, k)).ok()?;
        let mut v: Value = serde_json::from_str(&j).ok()?;
        let mut bytes = val.to_vec(); if le { bytes.reverse(); }
        let p: Vec<String> = path.iter().map(|x| x.to_string()).collect();
        if p.is_empty() { v = json!(hex::encode(&bytes)); } else { crate::c08::set_path(&mut v, &p, Some(json!(hex::encode(&bytes)))); }
        Some(v.to_string())
    };
    // does the JSON codec write scalars big-endian?
    let sj = zk.json_of(Kind::Sk, &b.key.sk).ok().unwrap_or_default();
    let le = !sj.contains(&hex::encode(&b.key.sk));
    // ---- public key (G2 slot)
    for (name, bytes, _id) in bad_g2() {
        expect_err(Kind::Pk, "W", name, &bytes, "octets", zk.dec_pk(&bytes));
        if let Some(j) = jsub(Kind::Pk, &[], &bytes, false) { expect_err(Kind::Pk, "W", name, &bytes, "json", zk.octets_of_json(Kind::Pk, &j)); }
    }
    // coordinates: identity and off-curve / non-subgroup uncompressed points
    let mut idu = [0u8; 192]; idu[0] = 0x40;
    let (x, y): ([u8; 96], [u8; 96]) = (idu[..96].try_into().unwrap(), idu[96..].try_into().unwrap());
    expect_err(Kind::Pk, "(x,y)", "identity", &idu, "coordinates", zk.pk_from_coords(&x, &y));
    // uncompressed forms of the forbidden G2 classes (same scan as for the compressed form)
    for x in 1u32..2000 {
        let mut c = vec![0u8; 96]; c[92..].copy_from_slice(&x.to_be_bytes()); c[0] |= 0x80;
        let a: [u8; 96] = c.clone().try_into().unwrap();
        let p = G2Affine::from_compressed_unchecked(&a);
        if bool::from(p.is_some()) && !bool::from(p.unwrap().is_torsion_free()) {
            let u = p.unwrap().to_uncompressed();
            let (ux, uy): ([u8; 96], [u8; 96]) = (u[..96].try_into().unwrap(), u[96..].try_into().unwrap());
            expect_err(Kind::Pk, "(x,y)", "on curve, outside the prime-order subgroup", &u, "coordinates", zk.pk_from_coords(&ux, &uy));
            break;
        }
    }
    { let mut xp = [0u8; 96]; xp[..48].copy_from_slice(&hex::decode(P_BE).unwrap()); let y0 = [0u8; 96]; expect_err(Kind::Pk, "(x,y)", "x.c1 = p (not reduced)", &[xp.to_vec(), y0.to_vec()].concat(), "coordinates", zk.pk_from_coords(&xp, &y0)); }
    { let mut xi = idu; xi[191] = 1; let (x2, y2): ([u8; 96], [u8; 96]) = (xi[..96].try_into().unwrap(), xi[96..].try_into().unwrap()); expect_err(Kind::Pk, "(x,y)", "infinity flag with non-zero coordinates", &xi, "coordinates", zk.pk_from_coords(&x2, &y2)); }
    if let O::Ok((hx, hy)) = zk.pk_to_coords(&b.key.pk) {
        { let mut x3 = hx.clone(); x3[0] |= 0x20; expect_err(Kind::Pk, "(x,y)", "sort flag set in uncompressed form", &[x3.clone(), hy.clone()].concat(), "coordinates", zk.pk_from_coords(&x3.try_into().unwrap(), &hy.clone().try_into().unwrap())); }
        { let mut x4 = hx.clone(); x4[0] |= 0x40; expect_err(Kind::Pk, "(x,y)", "infinity flag set on a finite point", &[x4.clone(), hy.clone()].concat(), "coordinates", zk.pk_from_coords(&x4.try_into().unwrap(), &hy.clone().try_into().unwrap())); }
        let mut y2 = hy.clone(); y2[95] ^= 1;
        expect_err(Kind::Pk, "(x,y)", "y altered (not on curve)", &[hx.clone(), y2.clone()].concat(), "coordinates", zk.pk_from_coords(&hx.clone().try_into().unwrap(), &y2.try_into().unwrap()));
        let mut x2 = hx.clone(); x2[0] |= 0x80;
        expect_err(Kind::Pk, "(x,y)", "compression flag set in uncompressed form", &[x2.clone(), hy.clone()].concat(), "coordinates", zk.pk_from_coords(&x2.try_into().unwrap(), &hy.clone().try_into().unwrap()));
    }
    // ---- scalar-only kinds
    for (name, bytes, zero) in bad_scalars() {
        if !zero { expect_err(Kind::Sk, "sk", name, &bytes, "octets", zk.dec_sk(&bytes)); if let Some(j) = jsub(Kind::Sk, &[], &bytes, le) { expect_err(Kind::Sk, "sk", name, &bytes, "json", zk.octets_of_json(Kind::Sk, &j)); } }
        if !zero { expect_err(Kind::Sk, "blind factor", name, &bytes, "octets", zk.dec_blind_factor(&bytes)); }
        // signature e (zero forbidden)
        for (k, honest) in [(Kind::Sig, &b.sig), (Kind::BlindSig, &b.bsig)] {
            let mut x = honest.clone(); x[48..].copy_from_slice(&bytes); expect_err(k, "e", name, &x, "octets", dec(zk, k, &x));
            if let Some(j) = jsub(k, &["BBSplus", "e"], &bytes, le) { expect_err(k, "e", name, &x, "json", zk.octets_of_json(k, &j)); }
        }
        if !zero {
            let nsc = (b.proof.len() - 144) / 32;
            for slot in 0..nsc { let mut x = b.proof.clone(); x[144 + 32 * slot..176 + 32 * slot].copy_from_slice(&bytes); expect_err(Kind::Proof, &format!("scalar#{}", slot), name, &x, "octets", zk.dec_proof(&x)); }
            for (slot, path) in [("e_cap", vec!["BBSplus", "e_cap"]), ("r1_cap", vec!["BBSplus", "r1_cap"]), ("r3_cap", vec!["BBSplus", "r3_cap"]), ("m_cap[0]", vec!["BBSplus", "m_cap", "0"]), ("challenge", vec!["BBSplus", "challenge"])] {
                if let Some(j) = jsub(Kind::Proof, &path, &bytes, le) { expect_err(Kind::Proof, slot, name, &bytes, "json", zk.octets_of_json(Kind::Proof, &j)); }
            }
            let ncs = (b.cwp.len() - 48) / 32;
            for slot in 0..ncs { let mut x = b.cwp.clone(); x[48 + 32 * slot..80 + 32 * slot].copy_from_slice(&bytes); expect_err(Kind::Commitment, &format!("scalar#{}", slot), name, &x, "octets", zk.dec_commitment(&x)); }
        }
    }
    // ---- G1 slots
    let proof_u0: Vec<u8> = zk.proof_gen(&b.key.pk, &b.sig, Some(&b.header), Some(&b.ph), Some(&b.msgs), Some(&(0..b.msgs.len()).collect::<Vec<usize>>())).ok().unwrap_or_default();
    for (name, bytes, is_id) in bad_g1() {
        for (k, honest) in [(Kind::Sig, &b.sig), (Kind::BlindSig, &b.bsig)] {
            let mut x = honest.clone(); x[..48].copy_from_slice(&bytes); expect_err(k, "A", name, &x, "octets", dec(zk, k, &x));
            if let Some(j) = jsub(k, &["BBSplus", "A"], &bytes, false) { expect_err(k, "A", name, &x, "json", zk.octets_of_json(k, &j)); }
        }
        for (slot, sname) in [(0usize, "Abar"), (1, "Bbar"), (2, "D")] {
            let mut x = b.proof.clone(); x[48 * slot..48 * slot + 48].copy_from_slice(&bytes); expect_err(Kind::Proof, sname, name, &x, "octets", zk.dec_proof(&x));
            if let Some(j) = jsub(Kind::Proof, &["BBSplus", sname], &bytes, false) { expect_err(Kind::Proof, sname, name, &x, "json", zk.octets_of_json(Kind::Proof, &j)); }
            // the same slot of a proof that hides nothing (272 octets: the shortest shape, a decoder fast path shows here)
            if proof_u0.len() == 272 { let mut x = proof_u0.clone(); x[48 * slot..48 * slot + 48].copy_from_slice(&bytes); expect_err(Kind::Proof, &format!("{}(U=0)", sname), name, &x, "octets", zk.dec_proof(&x)); }
        }
        if !is_id { let mut x = b.cwp.clone(); x[..48].copy_from_slice(&bytes); expect_err(Kind::Commitment, "C", name, &x, "octets", zk.dec_commitment(&x)); }
    }
    // the OTHER valid encoding of the same point given to the compressed decoders (two accepted encodings of one object)
    { let gk = G2Affine::from_compressed(&b.key.pk.clone().try_into().unwrap()).unwrap(); let u = gk.to_uncompressed().to_vec(); expect_err(Kind::Pk, "W", "uncompressed 192-octet encoding", &u, "octets", zk.dec_pk(&u)); }
    { let ga = G1Affine::from_compressed(&b.sig[..48].try_into().unwrap()).unwrap(); let mut x = ga.to_uncompressed().to_vec(); x.extend_from_slice(&b.sig[48..]); expect_err(Kind::Sig, "A", "uncompressed 96-octet encoding of A", &x, "octets", zk.dec_sig(&x)); }
    { let ga = G1Affine::from_compressed(&b.proof[..48].try_into().unwrap()).unwrap(); let mut x = ga.to_uncompressed().to_vec(); x.extend_from_slice(&b.proof[48..]); expect_err(Kind::Proof, "Abar", "uncompressed 96-octet encoding of Abar", &x, "octets", zk.dec_proof(&x)); }
    { let ga = G1Affine::from_compressed(&b.cwp[..48].try_into().unwrap()).unwrap(); let mut x = ga.to_uncompressed().to_vec(); x.extend_from_slice(&b.cwp[48..]); expect_err(Kind::Commitment, "C", "uncompressed 96-octet encoding of C", &x, "octets", zk.dec_commitment(&x)); }
    // wrong total lengths for the fixed-size kinds: every length != canonical in 0..=2*canonical
    for (k, honest) in [(Kind::Pk, &b.key.pk), (Kind::Sk, &b.key.sk), (Kind::Sig, &b.sig)] {
        for n in 0..=2 * honest.len() { if n == honest.len() { continue; } let mut x: Vec<u8> = honest.iter().copied().take(n).collect(); x.resize(n, 0); expect_err(k, "length", "wrong total length", &x, "octets", dec(zk, k, &x)); }
    }
    env.ctx.sample(json!({"root": it.id, "g1_classes": bad_g1().iter().map(|x| x.0).collect::<Vec<_>>(), "scalar_classes": ["r", "r+1", "2^256-1", "zero (e only)"]}));
}
