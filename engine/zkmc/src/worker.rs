pub fn main() {}
