//! Isolated worker for untrusted-input sweeps (C08, decoder parts of C09): executes one case per input line on the
//! REAL API and answers with the outcome, the CPU time and the bytes allocated. A crash, abort, hang or allocation
//! failure kills only this process; the parent records it against the case that was announced.
#![allow(non_snake_case)]
use crate::common::*;
use crate::zk::{Kind, Zk};
use mccore::O;
use refbbs::Suite;
use serde_json::{json, Value};
use std::alloc::{GlobalAlloc, Layout, System};
use std::io::{BufRead, Write};
use std::sync::atomic::{AtomicU64, Ordering};

pub struct Counting;
pub static ALLOCATED: AtomicU64 = AtomicU64::new(0);
unsafe impl GlobalAlloc for Counting {
    unsafe fn alloc(&self, l: Layout) -> *mut u8 { ALLOCATED.fetch_add(l.size() as u64, Ordering::Relaxed); System.alloc(l) }
    unsafe fn dealloc(&self, p: *mut u8, l: Layout) { System.dealloc(p, l) }
    unsafe fn realloc(&self, p: *mut u8, l: Layout, n: usize) -> *mut u8 { if n > l.size() { ALLOCATED.fetch_add((n - l.size()) as u64, Ordering::Relaxed); } System.realloc(p, l, n) }
    unsafe fn alloc_zeroed(&self, l: Layout) -> *mut u8 { ALLOCATED.fetch_add(l.size() as u64, Ordering::Relaxed); System.alloc_zeroed(l) }
}

fn cpu_us() -> u64 {
    let mut ts = libc::timespec { tv_sec: 0, tv_nsec: 0 };
    unsafe { libc::clock_gettime(libc::CLOCK_THREAD_CPUTIME_ID, &mut ts) };
    ts.tv_sec as u64 * 1_000_000 + ts.tv_nsec as u64 / 1000
}

pub struct Base { pub suite: Suite, pub key: Key, pub header: Vec<u8>, pub ph: Vec<u8>, pub msgs: Vec<Vec<u8>>, pub sig: Vec<u8>, pub proof: Vec<u8>, pub bmsgs: Vec<Vec<u8>>, pub bcms: Vec<Vec<u8>>, pub cwp: Vec<u8>, pub blind: [u8; 32], pub bsig: Vec<u8>, pub bproof: Vec<u8> }

/// Honest artefacts the sweeps are derived from: L = 3 plain (disclosing {0}); blind L = 2, M = 2 (disclosing {0},{0}).
pub fn base(s: Suite) -> Base {
    let zk = z(s);
    let k = key(s, "k0");
    let header = b"c08-header".to_vec();
    let ph = b"c08-ph".to_vec();
    let msgs: Vec<Vec<u8>> = (0..3).map(|i| format!("c08-m{}", i).into_bytes()).collect();
    let sig = zk.sign(&k.sk, &k.pk, Some(&header), Some(&msgs)).ok().expect("base sign");
    let proof = zk.proof_gen(&k.pk, &sig, Some(&header), Some(&ph), Some(&msgs), Some(&[0])).ok().expect("base proof");
    let bmsgs: Vec<Vec<u8>> = (0..2).map(|i| format!("c08-b{}", i).into_bytes()).collect();
    let bcms: Vec<Vec<u8>> = (0..2).map(|i| format!("c08-c{}", i).into_bytes()).collect();
    let (cwp, blind) = zk.commit(Some(&bcms)).ok().expect("base commit");
    let bsig = zk.blind_sign(&k.sk, &k.pk, Some(&cwp), Some(&header), Some(&bmsgs)).ok().expect("base blind sign");
    let bproof = zk.blind_proof_gen(&k.pk, &bsig, Some(&header), Some(&ph), Some(&bmsgs), Some(&bcms), Some(&[0]), Some(&[0]), Some(&blind)).ok().expect("base blind proof");
    Base { suite: s, key: k, header, ph, msgs, sig, proof, bmsgs, bcms, cwp, blind, bsig, bproof }
}

fn usv(v: &Value) -> Vec<usize> { v.as_array().map(|a| a.iter().map(|x| x.as_u64().unwrap_or(0) as usize).collect()).unwrap_or_default() }
fn us(v: &Value) -> usize { v.as_u64().unwrap_or(0) as usize }
fn none(c: &serde_json::Value, which: char) -> bool { c["none"].as_str().map(|s| s.contains(which)).unwrap_or(false) }
fn kind_of(s: &str) -> Kind { match s { "pk" => Kind::Pk, "sk" => Kind::Sk, "sig" => Kind::Sig, "bsig" => Kind::BlindSig, "proof" => Kind::Proof, _ => Kind::Commitment } }
fn unit<T>(o: O<T>) -> O<()> { o.map(|_| ()) }
fn take(m: &[Vec<u8>], n: usize) -> Vec<Vec<u8>> { (0..n).map(|i| m.get(i).cloned().unwrap_or_else(|| format!("extra-{}", i).into_bytes())).collect() }

pub fn exec(zk: &dyn Zk, b: &Base, c: &Value) -> O<()> {
    let bytes = c["b"].as_str().map(|h| hex::decode(h).unwrap_or_default()).unwrap_or_default();
    let k = &b.key;
    let (h, ph) = (Some(&b.header[..]), Some(&b.ph[..]));
    match c["f"].as_str().unwrap_or("") {
        "dec_pk" => unit(zk.dec_pk(&bytes)),
        "dec_sk" => unit(zk.dec_sk(&bytes)),
        "dec_sig" => unit(zk.dec_sig(&bytes)),
        "dec_blind_sig" => unit(zk.dec_blind_sig(&bytes)),
        "dec_proof" => unit(zk.dec_proof(&bytes)),
        "dec_zkpok" => unit(zk.dec_zkpok(&bytes)),
        "dec_commitment" => unit(zk.dec_commitment(&bytes)),
        "dec_blind_factor" => unit(zk.dec_blind_factor(&bytes)),
        "davc" => unit(zk.deserialize_and_validate_commit(Some(&bytes), 3)),
        "proof_gen_sig" => unit(zk.proof_gen(&k.pk, &bytes, h, ph, Some(&b.msgs), Some(&[0]))),
        "verify_pk" => zk.verify(&bytes, &b.sig, h, Some(&b.msgs)),
        "blind_sign_cwp" => unit(zk.blind_sign(&k.sk, &k.pk, Some(&bytes), h, Some(&b.bmsgs))),
        "proof_verify_bytes" => zk.proof_verify(&k.pk, &bytes, h, ph, Some(&b.msgs[..1]), Some(&[0])),
        "blind_proof_verify_bytes" => zk.blind_proof_verify(&k.pk, &bytes, h, ph, Some(2), Some(&b.bmsgs[..1]), Some(&b.bcms[..1]), Some(&[0]), Some(&[0])),
        "proof_verify_bytes_nodisclosure" => zk.proof_verify(&k.pk, &bytes, h, ph, if c["none"] == true { None } else { Some(&[]) }, if c["none"] == true { None } else { Some(&[]) }),
        "blind_proof_verify_bytes_nodisclosure" => zk.blind_proof_verify(&k.pk, &bytes, h, ph, if c["none"] == true { None } else { Some(0) }, None, None, None, None),
        "update_signature_sig" => unit(zk.update_signature(&k.sk, &bytes, &b.msgs[0], b"new", 0, b.msgs.len())),
        "verify_sig" => zk.verify(&k.pk, &bytes, h, Some(&b.msgs)),
        "json_use" => zk.use_json(kind_of(c["kind"].as_str().unwrap_or("")), c["j"].as_str().unwrap_or(""), &k.pk, h, ph, Some(&b.msgs)),
        "json" => unit(zk.octets_of_json(kind_of(c["kind"].as_str().unwrap_or("")), c["j"].as_str().unwrap_or(""))),
        // "none": which optional lists are passed as None (m = messages, i = indexes, c = committed messages, j = committed indexes)
        "proof_gen_idx" => { let (m, i) = (take(&b.msgs, us(&c["nm"])), usv(&c["idx"])); unit(zk.proof_gen(&k.pk, &b.sig, h, ph, if none(c, 'm') { None } else { Some(&m) }, if none(c, 'i') { None } else { Some(&i) })) }
        "proof_verify_idx" => { let (m, i) = (take(&b.msgs, us(&c["nm"])), usv(&c["idx"])); zk.proof_verify(&k.pk, &b.proof, h, ph, if none(c, 'm') { None } else { Some(&m) }, if none(c, 'i') { None } else { Some(&i) }) }
        "blind_proof_gen_idx" => { let (m, cm, i, ci) = (take(&b.bmsgs, us(&c["nm"])), take(&b.bcms, us(&c["ncm"])), usv(&c["idx"]), usv(&c["cidx"]));
            unit(zk.blind_proof_gen(&k.pk, &b.bsig, h, ph, if none(c, 'm') { None } else { Some(&m) }, if none(c, 'c') { None } else { Some(&cm) }, if none(c, 'i') { None } else { Some(&i) }, if none(c, 'j') { None } else { Some(&ci) }, Some(&b.blind))) }
        "blind_proof_verify_idx" => {
            let l = if c["l"].is_null() { None } else { Some(us(&c["l"])) };
            let (m, cm, i, ci) = (take(&b.bmsgs, us(&c["nm"])), take(&b.bcms, us(&c["ncm"])), usv(&c["idx"]), usv(&c["cidx"]));
            zk.blind_proof_verify(&k.pk, &b.bproof, h, ph, l, if none(c, 'm') { None } else { Some(&m) }, if none(c, 'c') { None } else { Some(&cm) }, if none(c, 'i') { None } else { Some(&i) }, if none(c, 'j') { None } else { Some(&ci) })
        }
        "update_signature" => unit(zk.update_signature(&k.sk, &b.sig, &b.msgs[0], b"new", us(&c["i"]), us(&c["n"]))),
        "verify_n" => zk.verify(&k.pk, &b.sig, h, Some(&take(&b.msgs, us(&c["nm"])))),
        "verify_blind_sign_n" => zk.verify_blind_sign(&k.pk, &b.bsig, h, Some(&take(&b.bmsgs, us(&c["nm"]))), Some(&take(&b.bcms, us(&c["ncm"]))), Some(&b.blind)),
        "blind_sign_n" => unit(zk.blind_sign(&k.sk, &k.pk, Some(&b.cwp), h, Some(&take(&b.bmsgs, us(&c["nm"]))))),
        "generators" => unit(zk.generators(us(&c["n"]), None)),
        other => O::Err(format!("unknown case {}", other)),
    }
}

pub fn main() {
    mccore::quiet_panics();
    // an allocation bomb must fail loudly inside this process, not take the machine down
    unsafe { let lim = libc::rlimit { rlim_cur: 6 << 30, rlim_max: 6 << 30 }; libc::setrlimit(libc::RLIMIT_AS, &lim); }
    let out = mccore::Out::capture();
    let bases = [base(Suite::Sha256), base(Suite::Shake256)];
    out.line("READY");
    let stdin = std::io::stdin();
    for line in stdin.lock().lines() {
        let line = match line { Ok(l) => l, Err(_) => break };
        if line.is_empty() { continue; }
        let c: Value = match serde_json::from_str(&line) { Ok(v) => v, Err(_) => { out.line("{\"k\":\"bad-case\"}"); continue; } };
        let bi = if c["s"] == "shake256" { 1 } else { 0 };
        let zk = z(bases[bi].suite);
        let a0 = ALLOCATED.load(Ordering::Relaxed);
        let t0 = cpu_us();
        let r = exec(zk, &bases[bi], &c);
        let t1 = cpu_us();
        let a1 = ALLOCATED.load(Ordering::Relaxed);
        let msg = match &r { O::Ok(_) => String::new(), O::Err(e) => e.chars().take(80).collect(), O::Panic(p) => p.chars().take(160).collect() };
        out.line(&json!({"k": r.kind(), "cpu_us": t1 - t0, "alloc": a1 - a0, "msg": msg}).to_string());
    }
    let _ = std::io::stdout().flush();
}
