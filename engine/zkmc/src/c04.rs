//! C04 — BBS proof soundness: (A) single edits of an honest proof (bound 1; thorough bound 2 on structural edits),
//! (C) exhaustive forgery family assembled from public data only, run through from_bytes AND serde.
#![allow(non_snake_case)]
use crate::c02::{header_edits, message_list_edits};
use crate::common::*;
use crate::edits::*;
use crate::zk::Kind;
use bls12_381_plus::{G1Projective, Scalar};
use group::Group;
use mccore::{par_for, subsets, O};
use refbbs::Suite;
use serde_json::json;

#[derive(Clone, PartialEq, Eq)]
pub struct Ps {
    pub suite: Suite,
    pub pk: Vec<u8>,
    pub proof: Vec<u8>,
    pub header: Vec<u8>,
    pub ph: Vec<u8>,
    pub dmsgs: Vec<Vec<u8>>,
    pub idx: Vec<usize>,
    pub blind_iface: Option<usize>, // Some(L): verify through blind_proof_verify with this L
}
impl Ps {
    fn key(&self) -> Vec<u8> {
        let mut k = vec![self.suite as u8, self.blind_iface.is_some() as u8];
        k.extend_from_slice(&self.pk);
        k.extend_from_slice(&msgs_digest(&[self.proof.clone(), self.header.clone(), self.ph.clone()]));
        k.extend_from_slice(&msgs_digest(&self.dmsgs));
        for i in &self.idx { k.extend_from_slice(&(*i as u64).to_be_bytes()); }
        k
    }
    /// in contract: strictly ascending index list (the drafts' precondition)
    fn in_contract(&self) -> bool { self.idx.windows(2).all(|w| w[0] < w[1]) }
    fn verify_impl(&self) -> O<()> {
        match self.blind_iface {
            None => z(self.suite).proof_verify(&self.pk, &self.proof, Some(&self.header), Some(&self.ph), Some(&self.dmsgs), Some(&self.idx)),
            Some(l) => z(self.suite).blind_proof_verify(&self.pk, &self.proof, Some(&self.header), Some(&self.ph), Some(l), Some(&self.dmsgs), None, Some(&self.idx), None),
        }
    }
    fn verify_ref(&self) -> Result<(), String> {
        match self.blind_iface {
            None => refbbs::proof_verify(self.suite, &self.pk, &self.proof, &self.header, &self.ph, &self.dmsgs, &self.idx),
            Some(l) => refbbs::blind_proof_verify(self.suite, &self.pk, &self.proof, &self.header, &self.ph, l, &self.dmsgs, &[], &self.idx, &[]),
        }
    }
}

fn edits_for(env: &Env, base: &Ps, l: usize, flip_range: (usize, usize)) -> Vec<Ed<Ps>> {
    let seed = env.ctx.seed;
    let letters: Vec<Vec<u8>> = vec![vec![], vec![0x01], mccore::fill(seed, "c04-letter", 32)];
    // edits of the disclosed message values only (same positions)
    let mut v: Vec<Ed<Ps>> = message_list_edits::<Ps>(&base.dmsgs, &letters, "dmsg", |s| &s.dmsgs, |s, m| Ps { dmsgs: m, ..s.clone() })
        .into_iter()
        .filter(|e| e.class == "dmsg-bitflip" || e.class == "dmsg-replace" || e.class == "dmsg-byte-truncate" || e.class == "dmsg-byte-extend" || e.class == "dmsg-swap" || e.class == "dmsg-delete" || e.class == "dmsg-insert")
        .collect();
    v.extend(header_edits::<Ps>(seed, "header", |s| &s.header, |s, h| Ps { header: h, ..s.clone() }));
    v.extend(header_edits::<Ps>(seed, "ph", |s| &s.ph, |s, h| Ps { ph: h, ..s.clone() }));
    let r = base.idx.len();
    for k in 0..r {
        for val in 0..=(l + 1) {
            v.push(ed(format!("idx[{k}] := {val}"), "idx-replace", true, move |s: &Ps| {
                if k >= s.idx.len() || s.idx[k] == val { return None; }
                let mut i = s.idx.clone(); i[k] = val; Some(Ps { idx: i, ..s.clone() })
            }));
        }
        v.push(ed(format!("drop disclosure #{k} (message and index)"), "disclosure-drop", true, move |s: &Ps| {
            if k >= s.idx.len() || k >= s.dmsgs.len() { return None; }
            let mut i = s.idx.clone(); let mut m = s.dmsgs.clone(); i.remove(k); m.remove(k); Some(Ps { idx: i, dmsgs: m, ..s.clone() })
        }));
        v.push(ed(format!("drop idx[{k}] only"), "idx-drop", false, move |s: &Ps| {
            if k >= s.idx.len() { return None; }
            let mut i = s.idx.clone(); i.remove(k); Some(Ps { idx: i, ..s.clone() })
        }));
        v.push(ed(format!("duplicate idx[{k}]"), "idx-duplicate", false, move |s: &Ps| {
            if k >= s.idx.len() { return None; }
            let mut i = s.idx.clone(); let x = i[k]; i.insert(k, x); Some(Ps { idx: i, ..s.clone() })
        }));
        for k2 in (k + 1)..r {
            v.push(ed(format!("swap idx[{k}]<->idx[{k2}]"), "idx-swap", false, move |s: &Ps| {
                if k2 >= s.idx.len() { return None; }
                let mut i = s.idx.clone(); i.swap(k, k2); Some(Ps { idx: i, ..s.clone() })
            }));
        }
    }
    for k in 0..r {
        for (li, lt) in letters.iter().enumerate() {
            let lt = lt.clone();
            v.push(ed(format!("repeat idx[{k}] with letter{li} as an extra disclosed message"), "disclosure-repeat-index", li == 1, move |s: &Ps| {
                if k >= s.idx.len() || s.idx.len() != s.dmsgs.len() { return None; }
                let mut i = s.idx.clone(); let mut m = s.dmsgs.clone(); let x = i[k]; i.insert(k + 1, x); m.insert(k + 1, lt.clone()); Some(Ps { idx: i, dmsgs: m, ..s.clone() })
            }));
            let lt2 = letters[li].clone();
            v.push(ed(format!("repeat idx[{k}] with letter{li} BEFORE the genuine message"), "disclosure-repeat-index", false, move |s: &Ps| {
                if k >= s.idx.len() || s.idx.len() != s.dmsgs.len() { return None; }
                let mut i = s.idx.clone(); let mut m = s.dmsgs.clone(); let x = i[k]; i.insert(k, x); m.insert(k, lt2.clone()); Some(Ps { idx: i, dmsgs: m, ..s.clone() })
            }));
        }
        for k2 in (k + 1)..r {
            v.push(ed(format!("swap disclosures #{k} and #{k2} (message and index together)"), "disclosure-swap-pairs", false, move |s: &Ps| {
                if k2 >= s.idx.len() || k2 >= s.dmsgs.len() { return None; }
                let mut i = s.idx.clone(); let mut m = s.dmsgs.clone(); i.swap(k, k2); m.swap(k, k2); Some(Ps { idx: i, dmsgs: m, ..s.clone() })
            }));
        }
    }
    // add a disclosure (new index, letter) keeping the list ascending
    for val in 0..=(l + 1) {
        for (li, lt) in letters.iter().enumerate() {
            let lt = lt.clone();
            v.push(ed(format!("add disclosure ({val}, letter{li})"), "disclosure-add", li == 1, move |s: &Ps| {
                if s.idx.contains(&val) || s.idx.len() != s.dmsgs.len() { return None; }
                let pos = s.idx.iter().position(|&x| x > val).unwrap_or(s.idx.len());
                let mut i = s.idx.clone(); let mut m = s.dmsgs.clone(); i.insert(pos, val); m.insert(pos, lt.clone()); Some(Ps { idx: i, dmsgs: m, ..s.clone() })
            }));
        }
    }
    for s2 in suites() {
        for k in keys(s2) {
            let pk = k.pk.clone();
            v.push(ed(format!("pk := {}/{}", s2.name(), k.id), "pk-replace", k.id == "k1", move |s: &Ps| { if s.pk == pk { return None; } Some(Ps { pk: pk.clone(), ..s.clone() }) }));
        }
    }
    // hidden-message count: remove each m^_j, append a scalar before the challenge
    let u = (base.proof.len() - 272) / 32;
    for j in 0..u {
        v.push(ed(format!("remove m^_{j}"), "mhat-remove", true, move |s: &Ps| {
            let off = 240 + 32 * j; if s.proof.len() < off + 64 { return None; }
            let mut p = s.proof.clone(); p.drain(off..off + 32); Some(Ps { proof: p, ..s.clone() })
        }));
    }
    for (nm, kind) in [("zero", 0u8), ("copy-of-challenge", 1), ("fresh", 2)] {
        v.push(ed(format!("append {nm} scalar before the challenge"), "mhat-append", kind == 2, move |s: &Ps| {
            if s.proof.len() < 272 { return None; }
            let at = s.proof.len() - 32;
            let sc: Vec<u8> = match kind { 0 => vec![0u8; 32], 1 => s.proof[at..].to_vec(), _ => refbbs::sc_bytes(&refbbs::random_scalar_from(b"c04", b"fresh", 7)).to_vec() };
            let mut p = s.proof.clone(); p.splice(at..at, sc); Some(Ps { proof: p, ..s.clone() })
        }));
    }
    for kk in 1..=2usize {
        v.push(ed(format!("truncate proof by {} octets", 32 * kk), "proof-truncate", false, move |s: &Ps| { if s.proof.len() < 32 * kk { return None; } Some(Ps { proof: s.proof[..s.proof.len() - 32 * kk].to_vec(), ..s.clone() }) }));
        v.push(ed(format!("extend proof by {} zero octets", 32 * kk), "proof-extend", false, move |s: &Ps| { let mut p = s.proof.clone(); p.extend(vec![0u8; 32 * kk]); Some(Ps { proof: p, ..s.clone() }) }));
    }
    for bit in flip_range.0..flip_range.1.min(base.proof.len() * 8) {
        let cls = match bit / 8 { 0..=47 => "proofflip-Abar", 48..=95 => "proofflip-Bbar", 96..=143 => "proofflip-D", 144..=239 => "proofflip-response", _ => "proofflip-mhat-or-challenge" };
        v.push(ed(format!("proof flip bit {bit}"), cls, false, move |s: &Ps| { if bit / 8 >= s.proof.len() { return None; } Some(Ps { proof: flip(&s.proof, bit), ..s.clone() }) }));
    }
    v.push(ed("verify under the other ciphersuite".into(), "cross-suite", true, |s: &Ps| Some(Ps { suite: s.suite.other(), ..s.clone() })));
    let total = l;
    for lval in [0usize, total.saturating_sub(1), total] {
        v.push(ed(format!("verify through the blind interface with L={lval}"), "cross-interface", false, move |s: &Ps| { if s.blind_iface.is_some() { return None; } Some(Ps { blind_iface: Some(lval), ..s.clone() }) }));
    }
    v
}

struct Root { id: String, suite: Suite, key: Key, hn: String, header: Option<Vec<u8>>, pn: String, ph: Option<Vec<u8>>, l: usize, d: Vec<usize>, flips: (usize, usize) }

pub fn run(env: &Env) {
    let seed = env.ctx.seed;
    let bound = if env.thorough() { 2 } else { 1 };
    let maxl = if env.thorough() { 5 } else { 4 };
    let hs = hdr_small(seed);
    let combos = [(hs[0].clone(), hs[0].clone()), (hs[2].clone(), hs[2].clone())];
    let mut roots = Vec::new();
    for s in suites() {
        let k = key(s, "k0");
        for l in 0..=maxl {
            for d in subsets(l) {
                if !env.thorough() && l == 4 && ![vec![], vec![0, 1, 2, 3], vec![0], vec![3], vec![1, 2]].contains(&d) { continue; }
                for ((hn, h), (pn, p)) in combos.iter().cloned() {
                    let u = l - d.len();
                    let nbits = (272 + 32 * u) * 8;
                    // full bit-flip sets: quick on the proofs with (L=2 or 3, |D|=1, both header forms); thorough on all bases
                    let full = env.thorough() || ((l == 2 || l == 3) && d.len() == 1 && d[0] == 0);
                    let id0 = format!("{}/L{}/D{:?}/h={}/ph={}", s.name(), l, d, hn, pn);
                    if full {
                        let chunk = 384usize;
                        let mut a = 0;
                        while a < nbits {
                            roots.push(Root { id: format!("{}/flips{}-{}", id0, a, a + chunk), suite: s, key: k.clone(), hn: hn.clone(), header: h.clone(), pn: pn.clone(), ph: p.clone(), l, d: d.clone(), flips: (a, (a + chunk).min(nbits)) });
                            a += chunk;
                        }
                    }
                    roots.push(Root { id: format!("{}/structural", id0), suite: s, key: k.clone(), hn, header: h, pn, ph: p, l, d: d.clone(), flips: (0, 0) });
                }
            }
        }
    }
    // header, presentation header and one disclosed message longer than 2^16 octets (tail edits must be noticed)
    for s in suites() { let long = ("70000B".to_string(), Some(mccore::fill(seed, "c04-long", 70000))); roots.push(Root { id: format!("{}/L2/D[0]/h=70000B/ph=70000B/structural", s.name()), suite: s, key: key(s, "k0"), hn: long.0.clone(), header: long.1.clone(), pn: long.0.clone(), ph: long.1.clone(), l: 2, d: vec![0], flips: (0, 0) }); }
    env.ctx.set_rule("one root per suite with 70000-octet header, presentation header and disclosed message. (A) roots = honest proofs over suites x L in 0..=4 (thorough 0..=5) x ALL disclosure sets x {(none,none),(16B,16B)} header/ph; from each root every single edit: disclosed message bit flips / replace / byte truncate / byte extend / swap / drop / insert; each index := every value in 0..=L+1, drop, duplicate, swap; add a disclosure at every free position; header and ph := every alphabet element, bit flips, extend, truncate; pk := every other key; remove each m^_j; append zero/copy/fresh scalar; truncate/extend by 32 and 64 octets; every single-bit flip of every proof octet (quick: 8 proofs; thorough: all); other suite; blind interface. Thorough: all ordered pairs of structural edits. Index lists that are not strictly ascending (swapped indexes, repeated indexes with another message, swapped pairs) are outside the drafts' precondition: the verifier may refuse them, but a VIOLATION is raised when it accepts a claim containing a (position, message) pair that the proof does not disclose. (C) forgery families from public data only: Abar,Bbar in 6 points x D in 9 points x response slopes {0,1,-1}^(3+U) (+ -1/k when D = k*Bv), U in {0,1}, through from_bytes and through serde. State = edited statement / forged proof; non-trivial = the real verifier ran and its verdict was compared with the semantic (and reference) verdict.");
    env.ctx.extra("deviation_bound_completed", json!(bound));
    par_for(&roots, |_, r| {
        if !env.want(&r.id) || env.ctx.out_of_time() { return; }
        let zk = z(r.suite);
        let k = &r.key;
        let mut msgs = distinct_msgs(seed, "c04", r.l);
        if r.hn == "70000B" { msgs[0] = mccore::fill(seed, "c04-long-msg", 70000); }
        let det0 = json!({"suite": r.suite.name(), "L": r.l, "disclosed": r.d, "header": r.hn, "ph": r.pn, "messages": hexv(&msgs.iter().map(|m| m[..m.len().min(64)].to_vec()).collect::<Vec<_>>())});
        let sig = match zk.sign(&k.sk, &k.pk, oh(&r.header), Some(&msgs)) { O::Ok(s) => s, o => { env.ctx.violation("C04:base-sign-failed", &o.describe(), env.case(&r.id, det0)); return; } };
        let proof = match zk.proof_gen(&k.pk, &sig, oh(&r.header), oh(&r.ph), Some(&msgs), Some(&r.d)) { O::Ok(p) => p, o => { env.ctx.violation("C04:base-proof-gen-failed", &o.describe(), env.case(&r.id, det0)); return; } };
        env.ctx.steps(2);
        let base = Ps { suite: r.suite, pk: k.pk.clone(), proof, header: hb(&r.header).to_vec(), ph: hb(&r.ph).to_vec(), dmsgs: r.d.iter().map(|&i| msgs[i].clone()).collect(), idx: r.d.clone(), blind_iface: None };
        let all = edits_for(env, &base, r.l, r.flips);
        let edits: Vec<Ed<Ps>> = if r.flips.1 > 0 { all.into_iter().filter(|e| e.class.starts_with("proofflip")).collect() } else { all };
        let b = if r.flips.1 > 0 { 1 } else { bound };
        let base_ref_ok = std::cell::Cell::new(true);
        let (_s, tr) = explore(&base, &edits, b, &|s| s.key(), &mut |v| {
            env.ctx.state(&[r.id.as_bytes(), &v.state.key()]);
            let got = v.state.verify_impl();
            let cls = if v.classes.is_empty() { "honest".to_string() } else { v.classes.join("+") };
            let det = json!({"base": det0, "edits": v.path, "proof": hex::encode(&v.state.proof), "idx": v.state.idx, "dmsgs": hexv(&v.state.dmsgs)});
            if !v.state.in_contract() {
                // Index list not strictly ascending (outside the drafts' precondition). The verifier may refuse such a call, but it must
                // never ACCEPT a claim that contains a (position, message) pair which is not a disclosed pair of the proof: accepting
                // [(2, m0), (0, m2)] for a proof of [(0, m0), (2, m2)], or [(0, m0), (2, m2), (2, FAKE)], certifies something never signed.
                env.ctx.step();
                let true_pairs: Vec<(usize, &Vec<u8>)> = base.idx.iter().copied().zip(base.dmsgs.iter()).collect();
                let claim_true = v.state.dmsgs.len() <= v.state.idx.len() && v.state.idx.iter().copied().zip(v.state.dmsgs.iter()).all(|p| true_pairs.contains(&p)) && v.state.pk == base.pk && v.state.header == base.header && v.state.ph == base.ph && v.state.proof == base.proof && v.state.suite == base.suite && v.state.blind_iface == base.blind_iface;
                match &got {
                    O::Panic(p) => env.ctx.violation(&format!("C04:unordered-index-list:{}:panic", cls), &format!("verifier panicked: {}", p), env.case(&r.id, det)),
                    O::Ok(_) if !claim_true => env.ctx.violation(&format!("C04:unordered-index-list:{}:accepted", cls), &format!("proof_verify accepted a claim with a (position, message) pair that is not disclosed by the proof, after [{}]", v.path.join("; ")), env.case(&r.id, det)),
                    _ => {}
                }
                env.ctx.class(&format!("unordered-index-list:{}", got.kind()));
                env.ctx.trace();
                return;
            }
            let sem = *v.state == base;
            expect(env, &r.id, &format!("proof_verify after [{}]", v.path.join("; ")), &got, sem, &format!("soundness:{}", cls), det);
            // reference verdict: always in thorough; in quick skipped for plain bit flips that the implementation rejected
            let skip_ref = !env.thorough() && cls.starts_with("proofflip") && !got.is_ok();
            let rf = if skip_ref { Err("skipped".to_string()) } else { v.state.verify_ref() };
            if v.path.is_empty() && rf.is_err() {
                base_ref_ok.set(false);
                env.ctx.violation("C04:base-artefact:reference-rejects", &format!("the implementation's honest proof is rejected by the reference: {:?}", rf), env.case(&r.id, det0.clone()));
            } else if base_ref_ok.get() && !skip_ref && rf.is_ok() != sem { env.machinery(&format!("C04 reference verdict {:?} != semantic {} at {} [{}]", rf, sem, r.id, v.path.join("; "))); }
            env.ctx.class(&format!("{}:{}", if sem { "accept" } else { "reject" }, v.classes.first().copied().unwrap_or("honest")));
            env.ctx.trace();
            if v.path.len() == 1 && v.path[0].starts_with("add disclosure") { env.ctx.sample(json!({"root": r.id, "edits": v.path, "verdict": got.kind()})); }
        });
        env.ctx.add_extra("edit_transitions", tr);
    });
    crate::hist::explore_families(env, &['P'], "proof verification histories");
    forgery_family(env, false);
    forgery_family(env, true);
}

// ---------------------------------------------------------------------------------------------------------------
// (C) forgery family: proofs assembled from public data only

const AB: [&str; 6] = ["O", "g1", "P1", "Bv", "Abar*", "Bbar*"];
const DN: [&str; 9] = ["O", "Bv", "-Bv", "2Bv", "P1", "Q1", "H1", "g1", "D*"];
fn sc_hex(json_be: bool, s: &Scalar) -> String {
    let mut b = s.to_be_bytes();
    if !json_be { b.reverse(); }
    hex::encode(b)
}

/// `blind`: the same family presented to blind_proof_verify (blind api_id and generators; the forger claims L signer
/// messages, all disclosed, and U - 1 committed messages, so U >= 1: the never-disclosed prover blind).
pub fn forgery_family(env: &Env, blind: bool) {
    let seed = env.ctx.seed;
    struct Fr { id: String, suite: Suite, u: usize, ia: usize, ib: usize }
    let mut roots = Vec::new();
    let maxu = if env.thorough() { 2usize } else { 1 };
    for s in suites() { for u in (if blind { 1 } else { 0 })..=maxu { for ia in 0..6 { for ib in 0..6 {
        if blind && !env.thorough() && !([0usize, 3, 4].contains(&ia) && [0usize, 3, 4].contains(&ib)) { continue; }
        // quick: U=0 in full; U=1 for Abar,Bbar in {O, Bv, Abar*}; thorough: everything, U up to 2
        if !env.thorough() && u == 1 && !([0usize, 3, 4].contains(&ia) && [0usize, 3, 4].contains(&ib)) { continue; }
        roots.push(Fr { id: format!("forge{}/{}/U{}/Abar{}/Bbar{}", if blind { "-blind" } else { "" }, s.name(), u, ia, ib), suite: s, u, ia, ib }); } } } }
    par_for(&roots, |_, r| {
        if !env.want(&r.id) || env.ctx.out_of_time() { return; }
        let s = r.suite;
        let zk = z(s);
        // the victim: a key the forger has never seen a signature from (k1); claimed statement chosen by the forger
        let victim = key(s, "k1");
        let header = mccore::fill(seed, "forge-hdr", 16);
        let ph = mccore::fill(seed, "forge-ph", 8);
        let l = 2usize.max(r.u); // claimed total message count = R + U
        let rcount = l - r.u;
        let claimed: Vec<Vec<u8>> = (0..rcount).map(|i| format!("forged claim {}", i).into_bytes()).collect();
        let idx: Vec<usize> = (0..rcount).collect();
        let api = if blind { s.api_id_blind() } else { s.api_id() };
        let gens = if blind { refbbs::blind_all_generators(s, rcount, r.u - 1) } else { refbbs::create_generators(s, l + 1, &api) };
        let (Q1, H) = (gens[0], &gens[1..]);
        let pk96: [u8; 96] = victim.pk.clone().try_into().unwrap();
        let domain = refbbs::calculate_domain(s, &pk96, &Q1, H, &header, &api).unwrap();
        let ms = refbbs::messages_to_scalars(s, &claimed, &api).unwrap();
        let mut Bv = s.p1() + Q1 * domain;
        for i in 0..rcount { Bv += H[i] * ms[i]; }
        // points lifted from an honest proof for OTHER messages under the forger's own key k0 (public data)
        let own = key(s, "k0");
        let om = distinct_msgs(seed, "forge-own", 2);
        let osig = zk.sign(&own.sk, &own.pk, Some(&header), Some(&om)).ok().unwrap();
        let oproof = refbbs::octets_to_proof(&zk.proof_gen(&own.pk, &osig, Some(&header), Some(&ph), Some(&om), Some(&[0])).ok().unwrap()).unwrap();
        let g1 = G1Projective::generator();
        let pts_ab = [G1Projective::IDENTITY, g1, s.p1(), Bv, oproof.Abar, oproof.Bbar];
        let two = Scalar::from(2u64);
        let pts_d: [(G1Projective, Option<Scalar>); 9] = [(G1Projective::IDENTITY, None), (Bv, Some(Scalar::ONE)), (-Bv, Some(-Scalar::ONE)), (Bv * two, Some(two)), (s.p1(), None), (Q1, None), (H[0], None), (g1, None), (oproof.D, None)];
        let (Abar, Bbar) = (pts_ab[r.ia], pts_ab[r.ib]);
        // JSON calibration: take the implementation's own JSON of the honest proof to learn the scalar byte order
        let honest_bytes = oproof.to_octets();
        let hj = zk.json_of(Kind::Proof, &honest_bytes).ok();
        let json_be = hj.as_ref().map(|j| j.contains(&hex::encode(oproof.c.to_be_bytes())));
        let nresp = 3 + r.u;
        let slopes_base = [Scalar::ZERO, Scalar::ONE, -Scalar::ONE];
        for (id, (D, kmul)) in pts_d.iter().enumerate() {
            let mut r3_slopes: Vec<Scalar> = slopes_base.to_vec();
            if let Some(kv) = kmul { let inv = -Option::<Scalar>::from(kv.invert()).unwrap(); if !r3_slopes.contains(&inv) { r3_slopes.push(inv); } }
            for combo in mccore::tuples(3, nresp) {
                for (r3i, r3s) in r3_slopes.iter().enumerate() {
                    // slope of r3 comes from r3_slopes; the tuple's own r3 entry is only used when it is the same index (avoid duplicates)
                    if r3i < 3 && combo[2] != r3i { continue; }
                    if r3i >= 3 && combo[2] != 0 { continue; }
                    let beta: Vec<Scalar> = (0..nresp).map(|i| if i == 2 { *r3s } else { slopes_base[combo[i]] }).collect();
                    let alpha: Vec<Scalar> = (0..nresp).map(|i| refbbs::random_scalar_from(&seed.to_be_bytes(), b"forge-alpha", i as u64 + 1)).collect();
                    // intercepts: T1 = a_e*Abar + a_r1*D ; T2 = a_r3*D + sum a_mj*H_j (hidden positions are the last U)
                    let T1 = Abar * alpha[0] + D * alpha[1];
                    let mut T2 = D * alpha[2];
                    for j in 0..r.u { T2 += H[rcount + j] * alpha[3 + j]; }
                    let init = refbbs::InitRes { Abar, Bbar, D: *D, T1, T2, domain };
                    let disclosed: Vec<(usize, Scalar)> = idx.iter().copied().zip(ms.iter().copied()).collect();
                    let c = refbbs::challenge_calculate(s, &init, &disclosed, &ph, &api).unwrap();
                    let resp: Vec<Scalar> = (0..nresp).map(|i| alpha[i] + beta[i] * c).collect();
                    let pr = refbbs::Proof { Abar, Bbar, D: *D, e_hat: resp[0], r1_hat: resp[1], r3_hat: resp[2], m_hat: resp[3..].to_vec(), c };
                    let bytes = pr.to_octets();
                    let name = format!("{}/D{}/slopes{:?}+r3#{}", r.id, id, combo, r3i);
                    env.ctx.state(&[name.as_bytes()]);
                    let det = json!({"suite": s.name(), "victim_key": "k1 (no signature ever produced under it)", "Abar": AB[r.ia], "Bbar": AB[r.ib], "D": DN[id], "slopes(e,r1,r3,m..)": format!("{:?} r3#{}", combo, r3i), "U": r.u, "proof": hex::encode(&bytes), "header": hex::encode(&header), "ph": hex::encode(&ph), "claimed_messages": hexv(&claimed), "idx": idx});
                    let got = if blind { zk.blind_proof_verify(&victim.pk, &bytes, Some(&header), Some(&ph), Some(rcount), Some(&claimed), None, Some(&idx), None) } else { zk.proof_verify(&victim.pk, &bytes, Some(&header), Some(&ph), Some(&claimed), Some(&idx)) };
                    let degenerate = bool::from(Abar.is_identity()) || bool::from(Bbar.is_identity()) || bool::from(D.is_identity());
                    let cls = if degenerate { "forgery:identity-point" } else { "forgery:public-points" };
                    expect(env, &r.id, &format!("{}(forged proof {})", if blind { "blind_proof_verify" } else { "proof_verify" }, name), &got, false, &format!("{}:octets{}", cls, if blind { ":blind" } else { "" }), det.clone());
                    if (env.thorough() || degenerate || got.is_ok()) && (if blind { refbbs::blind_proof_verify(s, &victim.pk, &bytes, &header, &ph, rcount, &claimed, &[], &idx, &[]) } else { refbbs::proof_verify(s, &victim.pk, &bytes, &header, &ph, &claimed, &idx) }).is_ok() { env.machinery(&format!("reference accepted forged proof {}", name)); }
                    if let (Some(be), false) = (json_be, blind) {
                        let j = json!({"BBSplus": {"Abar": hex::encode(refbbs::g1_bytes(&Abar)), "Bbar": hex::encode(refbbs::g1_bytes(&Bbar)), "D": hex::encode(refbbs::g1_bytes(D)), "e_cap": sc_hex(be, &resp[0]), "r1_cap": sc_hex(be, &resp[1]), "r3_cap": sc_hex(be, &resp[2]), "m_cap": resp[3..].iter().map(|x| sc_hex(be, x)).collect::<Vec<_>>(), "challenge": sc_hex(be, &c)}}).to_string();
                        let gj = zk.proof_verify_json(&victim.pk, &j, Some(&header), Some(&ph), Some(&claimed), Some(&idx));
                        expect(env, &r.id, &format!("proof_verify(serde-constructed forged proof {})", name), &gj, false, &format!("{}:serde", cls), det);
                    }
                    env.ctx.class(if degenerate { "reject:forged-degenerate" } else { "reject:forged-public" });
                    env.ctx.trace();
                }
            }
        }
        if json_be.is_none() { env.ctx.note("JSON calibration failed: serde path of the forgery family skipped"); }
    });
}
