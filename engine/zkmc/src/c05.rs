//! C05 — Blind BBS issuance and presentation completeness (form A, deviation bound 0).
#![allow(non_snake_case)]
use crate::common::*;
use mccore::{par_for, subsets};
use refbbs::Suite;
use serde_json::json;

struct Root { id: String, suite: Suite, key: Key, l: usize, m: usize, hn: String, header: Option<Vec<u8>>, ph: Option<Vec<u8>>, mode: &'static str }

pub fn run(env: &Env) {
    let seed = env.ctx.seed;
    let max = if env.thorough() { 4 } else { 3 };
    let hs = hdr_small(seed);
    let mut roots = Vec::new();
    for s in suites() {
        for k in keys(s).into_iter().filter(|k| k.id == "k0" || env.thorough() && k.id == "k1") {
            for l in 0..=max { for m in 0..=max {
                for (hn, h) in [hs[0].clone(), hs[2].clone()] {
                    let modes: Vec<&'static str> = if m == 0 { vec!["no-commitment(None)", "no-commitment(Some(empty))", "commit(None)", "commit(Some(empty list))"] } else { vec!["commit"] };
                    for mode in modes {
                        roots.push(Root { id: format!("{}/{}/L{}/M{}/h={}/{}", s.name(), k.id, l, m, hn, mode), suite: s, key: k.clone(), l, m, hn: hn.clone(), header: h.clone(), ph: h.clone(), mode });
                    }
                }
            } }
        }
    }
    // wide shapes: the total L + 1 + M around word sizes (a mask / window slip shows only there); a few disclosure patterns each
    for s in suites() { let k = key(s, "k0"); for (l, m) in [(60usize, 4usize), (59, 4), (63, 1), (63, 0), (64, 0), (65, 0), (0, 63), (0, 64), (32, 32), (31, 32), (100, 29), (127, 1), (128, 0), (1, 128), (0, 200), (175, 30), (0, 253), (0, 254), (0, 256), (2, 300), (0, 2045)] {
        // (0, 2045): commitment_with_proof of 65 552 octets, proofs around 2^16 octets
        if !env.thorough() && l + m > 310 { continue; }
        roots.push(Root { id: format!("{}/k0/L{}/M{}/h=16B/commit/wide", s.name(), l, m), suite: s, key: k.clone(), l, m, hn: hs[2].0.clone(), header: hs[2].1.clone(), ph: hs[2].1.clone(), mode: if m == 0 { "no-commitment(None)" } else { "commit" } });
    } }
    // equal message contents across positions and across the two lists (a de-duplication by content shows only there)
    for s in suites() { let k = key(s, "k0"); for (l, m) in [(2usize, 2usize), (3, 1), (1, 3)] {
        roots.push(Root { id: format!("{}/k0/L{}/M{}/h=16B/commit/equal-messages", s.name(), l, m), suite: s, key: k.clone(), l, m, hn: hs[2].0.clone(), header: hs[2].1.clone(), ph: hs[2].1.clone(), mode: "commit" });
    } }
    env.ctx.set_rule("equal-message roots: every signer and committed message has the same content, all disclosure subsets. wide roots: (L, M) with L + 1 + M around 64 / 65 / 128 / 130 with disclosure patterns {none, all, first, last, even positions}; whenever a disclosed list is empty, all four spellings (None / Some(empty)) x (messages, indexes) must verify. roots = suites x k0 (thorough + k1) x (L, M) in [0..=3]^2 (thorough [0..=4]^2) x header/ph in {none,16B} x commitment mode {no commitment as None, as Some(empty), commit(None), commit(Some([])), commit over M messages}; per root: commit -> blind_sign(serialized commitment) -> verify_blind_sign(committed messages, blinding factor) and signature bytes = reference; then ALL 2^L x 2^M disclosure pairs: blind_proof_gen -> blind_proof_verify(L) -> from_bytes(to_bytes) -> reference verifies -> implementation verifies a reference-made proof. State = (root, D, Dc). Non-trivial = blind proof produced with production randomness and verified by both verifiers.");
    env.ctx.extra("deviation_bound_completed", json!(0));
    crate::hist::explore_families(env, &['B'], "blind interface histories");
    par_for(&roots, |_, r| {
        if !env.want(&r.id) || env.ctx.out_of_time() { return; }
        let zk = z(r.suite);
        let k = &r.key;
        let equal = r.id.ends_with("/equal-messages");
        let msgs = if equal { vec![b"same content".to_vec(); r.l] } else { distinct_msgs(seed, "c05m", r.l) };
        let cms = if equal { vec![b"same content".to_vec(); r.m] } else { distinct_msgs(seed, "c05c", r.m) };
        let det0 = json!({"suite": r.suite.name(), "key": k.id, "L": r.l, "M": r.m, "header/ph": r.hn, "mode": r.mode});
        let commits = r.mode.starts_with("commit");
        let (cwp, blind): (Option<Vec<u8>>, Option<[u8; 32]>) = if commits {
            let c = if r.mode == "commit(None)" { zk.commit(None) } else { zk.commit(Some(&cms)) };
            if !expect(env, &r.id, "commit", &c, true, "commit", det0.clone()) { return; }
            let (c, b) = c.ok().unwrap();
            if c.len() != 112 + 32 * r.m { env.ctx.violation("C05:commit-length", &format!("commitment_with_proof has {} octets, expected {}", c.len(), 112 + 32 * r.m), env.case(&r.id, det0.clone())); }
            if refbbs::deserialize_and_validate_commit(r.suite, &c).is_err() { env.ctx.violation("C05:reference-rejects-commitment", "reference CoreCommitVerify rejects the implementation's commitment", env.case(&r.id, json!({"base": det0, "commitment": hex::encode(&c)}))); }
            (Some(c), Some(b))
        } else if r.mode == "no-commitment(Some(empty))" { (Some(vec![]), None) } else { (None, None) };
        let sig = zk.blind_sign(&k.sk, &k.pk, cwp.as_deref(), oh(&r.header), if r.l == 0 && r.mode.contains("None") { None } else { Some(&msgs) });
        if !expect(env, &r.id, "blind_sign", &sig, true, "blind_sign", det0.clone()) { return; }
        let sig = sig.ok().unwrap();
        let pk96: [u8; 96] = k.pk.clone().try_into().unwrap();
        let sk = refbbs::octets_to_scalar_strict(&k.sk).unwrap();
        match refbbs::blind_sign(r.suite, &sk, &pk96, cwp.as_deref().unwrap_or(&[]), hb(&r.header), &msgs) {
            Ok(rs) if rs.to_vec() == sig => env.ctx.class("blind-sig-bytes=reference"),
            Ok(rs) => env.ctx.violation("C05:blind_sign:bytes-differ-from-reference", "blind signature bytes differ from the reference", env.case(&r.id, json!({"base": det0, "impl": hex::encode(&sig), "ref": hex::encode(rs)}))),
            Err(e) => env.machinery(&format!("reference blind_sign failed at {}: {}", r.id, e)),
        }
        let cm_arg: Option<&[Vec<u8>]> = if !commits { None } else { Some(&cms) };
        let v = zk.verify_blind_sign(&k.pk, &sig, oh(&r.header), Some(&msgs), cm_arg, blind.as_ref());
        expect(env, &r.id, "verify_blind_sign", &v, true, "verify_blind_sign", det0.clone());
        let bsc = blind.map(|b| refbbs::octets_to_scalar_strict(&b).unwrap()).unwrap_or(bls12_381_plus::Scalar::ZERO);
        if let Err(e) = refbbs::verify_blind_sign(r.suite, &k.pk, &sig, hb(&r.header), &msgs, &cms, &bsc) {
            env.ctx.violation("C05:reference-rejects-blind-signature", &e, env.case(&r.id, det0.clone()));
        }
        let rt = zk.dec_blind_sig(&sig);
        env.ctx.step();
        if rt.clone().ok().as_deref() != Some(&sig[..]) { env.ctx.violation("C05:roundtrip:blind-signature", &rt.describe(), env.case(&r.id, det0.clone())); }
        let wide = r.id.ends_with("/wide");
        let pats = |n: usize| -> Vec<Vec<usize>> { let mut v = vec![vec![], (0..n).collect::<Vec<_>>()]; if n > 1 { v.push(vec![0]); v.push(vec![n - 1]); v.push((0..n).step_by(2).collect()); } v.dedup(); v };
        let choices: Vec<(Vec<usize>, Vec<usize>)> = if wide { let (a, b) = (pats(r.l), pats(r.m)); let mut c = Vec::new(); for (i, d) in a.iter().enumerate() { for (j, dc) in b.iter().enumerate() { if i == j || i == 0 || j == 0 { c.push((d.clone(), dc.clone())); } } } c }
            else { let mut c = Vec::new(); for d in subsets(r.l) { for dc in subsets(r.m) { c.push((d.clone(), dc.clone())); } } c };
        for (d, dc) in choices { {
            env.ctx.state(&[r.id.as_bytes(), format!("{:?}{:?}", d, dc).as_bytes()]);
            let det = json!({"base": det0, "disclosed": d, "disclosed_committed": dc});
            let u = r.l + r.m + 1 - d.len() - dc.len();
            let p = zk.blind_proof_gen(&k.pk, &sig, oh(&r.header), oh(&r.ph), Some(&msgs), cm_arg, Some(&d), if commits { Some(&dc) } else { None }, blind.as_ref());
            if !expect(env, &r.id, &format!("blind_proof_gen D={:?} Dc={:?}", d, dc), &p, true, "blind_proof_gen", det.clone()) { env.ctx.trace(); continue; }
            let p = p.ok().unwrap();
            if p.len() != 272 + 32 * u { env.ctx.violation("C05:length-law", &format!("blind proof length {} != 272+32*{}", p.len(), u), env.case(&r.id, det.clone())); }
            let dm: Vec<Vec<u8>> = d.iter().map(|&i| msgs[i].clone()).collect();
            let dcm: Vec<Vec<u8>> = dc.iter().map(|&i| cms[i].clone()).collect();
            let v = zk.blind_proof_verify(&k.pk, &p, oh(&r.header), oh(&r.ph), Some(r.l), Some(&dm), Some(&dcm), Some(&d), Some(&dc));
            expect(env, &r.id, &format!("blind_proof_verify D={:?} Dc={:?}", d, dc), &v, true, "blind_proof_verify", det.clone());
            // an absent list and an empty list are the same statement, in every combination of the two spellings
            if d.is_empty() || dc.is_empty() {
                let e: &[Vec<u8>] = &[]; let ei: &[usize] = &[];
                let forms: [(Option<&[Vec<u8>]>, Option<&[usize]>, &str); 4] = [(Some(e), Some(ei), "Some([]),Some([])"), (None, None, "None,None"), (None, Some(ei), "None,Some([])"), (Some(e), None, "Some([]),None")];
                for (fm, fi, fname) in forms { for (cm, ci, cname) in forms {
                    if fname == "Some([]),Some([])" && cname == fname { continue; }
                    let (a_m, a_i) = if d.is_empty() { (fm, fi) } else { (Some(&dm[..]), Some(&d[..])) };
                    let (b_m, b_i) = if dc.is_empty() { (cm, ci) } else { (Some(&dcm[..]), Some(&dc[..])) };
                    if (!d.is_empty() && fname != "None,None") || (!dc.is_empty() && cname != "None,None") { continue; }
                    if wide && !(fname == "None,Some([])" || cname == "Some([]),None") { continue; }
                    let v = zk.blind_proof_verify(&k.pk, &p, oh(&r.header), oh(&r.ph), Some(r.l), a_m, b_m, a_i, b_i);
                    expect(env, &r.id, &format!("blind_proof_verify D={:?} Dc={:?} with empty lists spelled signer:({}) committed:({})", d, dc, fname, cname), &v, true, "none-vs-empty:blind_proof_verify:lists", det.clone());
                } }
            }
            if r.l == 0 && d.is_empty() && dc.is_empty() {
                let v = zk.blind_proof_verify(&k.pk, &p, oh(&r.header), oh(&r.ph), None, None, None, None, None);
                expect(env, &r.id, "blind_proof_verify(all optional arguments None)", &v, true, "none-vs-empty:blind_proof_verify", det.clone());
            }
            let rt = zk.dec_proof(&p);
            env.ctx.step();
            if rt.clone().ok().as_deref() != Some(&p[..]) { env.ctx.violation("C05:roundtrip:blind-proof", &rt.describe(), env.case(&r.id, det.clone())); }
            if let Err(e) = refbbs::blind_proof_verify(r.suite, &k.pk, &p, hb(&r.header), hb(&r.ph), r.l, &dm, &dcm, &d, &dc) {
                env.ctx.violation("C05:reference-rejects-blind-proof", &e, env.case(&r.id, json!({"base": det0, "disclosed": d, "disclosed_committed": dc, "proof": hex::encode(&p)})));
            }
            if wide { env.ctx.class("wide"); env.ctx.trace(); continue; }
            let rnd: Vec<_> = (0..5 + u).map(|i| refbbs::random_scalar_from(&seed.to_be_bytes(), r.id.as_bytes(), i as u64 + 1000 * (d.len() + 10 * dc.len()) as u64)).collect();
            match refbbs::blind_proof_gen(r.suite, &pk96, &sig, hb(&r.header), hb(&r.ph), &msgs, &cms, &d, &dc, &bsc, &rnd) {
                Ok(rp) => { let v = zk.blind_proof_verify(&k.pk, &rp, oh(&r.header), oh(&r.ph), Some(r.l), Some(&dm), Some(&dcm), Some(&d), Some(&dc)); expect(env, &r.id, "blind_proof_verify(reference proof)", &v, true, "verify-reference-blind-proof", det.clone()); }
                Err(e) => env.machinery(&format!("reference blind_proof_gen failed at {}: {}", r.id, e)),
            }
            env.ctx.class(&format!("R={} Rc={}", d.len().min(2), dc.len().min(2)));
            env.ctx.trace();
            if r.l == 2 && r.m == 2 && d.len() == 1 && dc.len() == 1 { env.ctx.sample(json!({"root": r.id, "disclosed": d, "disclosed_committed": dc, "proof_len": p.len()})); }
        } }
    });
}
