//! C06 — Blind BBS soundness (form A, deviation bound 1; thorough bound 2 on structural edits):
//! (a) the signer refuses every damaged commitment-with-proof, (b) blind signatures and (c) blind proofs are bound to
//! exactly the statement they were produced for.
#![allow(non_snake_case)]
use crate::c02::{header_edits, message_list_edits};
use crate::common::*;
use crate::edits::*;
use bls12_381_plus::Scalar;
use mccore::{par_for, O};
use refbbs::Suite;
use serde_json::json;

// ---------------- (b) blind signature statement
#[derive(Clone, PartialEq, Eq)]
struct Bs { suite: Suite, pk: Vec<u8>, sig: Vec<u8>, header: Vec<u8>, msgs: Vec<Vec<u8>>, cmsgs: Vec<Vec<u8>>, blind: [u8; 32], blind_none: bool, plain_iface: bool }
impl Bs {
    fn key(&self) -> Vec<u8> {
        let mut k = vec![self.suite as u8, self.blind_none as u8, self.plain_iface as u8];
        k.extend_from_slice(&self.pk); k.extend_from_slice(&self.sig); k.extend_from_slice(&self.blind);
        k.extend_from_slice(&msgs_digest(&[self.header.clone()])); k.extend_from_slice(&msgs_digest(&self.msgs)); k.extend_from_slice(&msgs_digest(&self.cmsgs));
        k
    }
    fn stmt_eq(&self, o: &Bs) -> bool {
        self.suite == o.suite && self.pk == o.pk && self.sig == o.sig && self.header == o.header && self.msgs == o.msgs && self.cmsgs == o.cmsgs && self.blind == o.blind && self.plain_iface == o.plain_iface
    }
    fn verify_impl(&self) -> O<()> {
        if self.plain_iface { return z(self.suite).verify(&self.pk, &self.sig, Some(&self.header), Some(&self.msgs)); }
        let b = if self.blind_none && self.blind == [0u8; 32] { None } else { Some(&self.blind) };
        z(self.suite).verify_blind_sign(&self.pk, &self.sig, Some(&self.header), Some(&self.msgs), Some(&self.cmsgs), b)
    }
    fn verify_ref(&self) -> Result<(), String> {
        if self.plain_iface { return refbbs::verify(self.suite, &self.pk, &self.sig, &self.header, &self.msgs); }
        let b = refbbs::octets_to_scalar_strict(&self.blind)?;
        refbbs::verify_blind_sign(self.suite, &self.pk, &self.sig, &self.header, &self.msgs, &self.cmsgs, &b)
    }
}

// ---------------- (c) blind proof statement
#[derive(Clone, PartialEq, Eq)]
struct Bp { suite: Suite, pk: Vec<u8>, proof: Vec<u8>, header: Vec<u8>, ph: Vec<u8>, l: usize, dmsgs: Vec<Vec<u8>>, dcmsgs: Vec<Vec<u8>>, idx: Vec<usize>, cidx: Vec<usize>, plain_iface: bool,
    /// spelling only: empty lists are passed as None; L is passed as None (which means 0)
    none_empty: bool, l_none: bool }
impl Bp {
    fn key(&self) -> Vec<u8> {
        let mut k = vec![self.suite as u8, self.plain_iface as u8, self.none_empty as u8, self.l_none as u8];
        k.extend_from_slice(&self.pk); k.extend_from_slice(&(self.l as u64).to_be_bytes());
        k.extend_from_slice(&msgs_digest(&[self.proof.clone(), self.header.clone(), self.ph.clone()]));
        k.extend_from_slice(&msgs_digest(&self.dmsgs)); k.extend_from_slice(&msgs_digest(&self.dcmsgs));
        for i in &self.idx { k.extend_from_slice(&(*i as u64).to_be_bytes()); }
        k.push(0xfe);
        for i in &self.cidx { k.extend_from_slice(&(*i as u64).to_be_bytes()); }
        k
    }
    /// the statement with the spellings normalised away (L = None means L = 0)
    fn stmt(&self) -> Bp { Bp { none_empty: false, l_none: false, l: if self.l_none { 0 } else { self.l }, ..self.clone() } }
    fn in_contract(&self) -> bool { self.idx.windows(2).all(|w| w[0] < w[1]) && self.cidx.windows(2).all(|w| w[0] < w[1]) }
    fn verify_impl(&self) -> O<()> {
        if self.plain_iface {
            let all: Vec<Vec<u8>> = self.dmsgs.iter().chain(self.dcmsgs.iter()).cloned().collect();
            let ai: Vec<usize> = self.idx.iter().copied().chain(self.cidx.iter().map(|j| j.wrapping_add(self.l).wrapping_add(1))).collect();
            return z(self.suite).proof_verify(&self.pk, &self.proof, Some(&self.header), Some(&self.ph), Some(&all), Some(&ai));
        }
        let om = |v: &'_ Vec<Vec<u8>>| -> bool { self.none_empty && v.is_empty() };
        let oi = |v: &'_ Vec<usize>| -> bool { self.none_empty && v.is_empty() };
        z(self.suite).blind_proof_verify(&self.pk, &self.proof, Some(&self.header), Some(&self.ph), if self.l_none { None } else { Some(self.l) },
            if om(&self.dmsgs) { None } else { Some(&self.dmsgs) }, if om(&self.dcmsgs) { None } else { Some(&self.dcmsgs) }, if oi(&self.idx) { None } else { Some(&self.idx) }, if oi(&self.cidx) { None } else { Some(&self.cidx) })
    }
    fn verify_ref(&self) -> Result<(), String> {
        if self.plain_iface {
            let all: Vec<Vec<u8>> = self.dmsgs.iter().chain(self.dcmsgs.iter()).cloned().collect();
            let ai: Vec<usize> = self.idx.iter().copied().chain(self.cidx.iter().map(|j| j.wrapping_add(self.l).wrapping_add(1))).collect();
            return refbbs::proof_verify(self.suite, &self.pk, &self.proof, &self.header, &self.ph, &all, &ai);
        }
        refbbs::blind_proof_verify(self.suite, &self.pk, &self.proof, &self.header, &self.ph, if self.l_none { 0 } else { self.l }, &self.dmsgs, &self.dcmsgs, &self.idx, &self.cidx)
    }
}

fn sc_add(b: &[u8; 32], d: i64) -> [u8; 32] {
    let s = refbbs::octets_to_scalar_strict(b).unwrap();
    let r = if d >= 0 { s + Scalar::from(d as u64) } else { s - Scalar::from((-d) as u64) };
    r.to_be_bytes()
}

#[derive(Clone)]
enum Part { Commitment, BlindSig, BlindProof { flips: (usize, usize) } }
struct Root { id: String, suite: Suite, l: usize, m: usize, hn: String, header: Option<Vec<u8>>, part: Part }

pub fn run(env: &Env) {
    // proofs assembled from public data only, presented to blind_proof_verify (shared with C04)
    crate::c04::forgery_family(env, true);

    let seed = env.ctx.seed;
    let bound = if env.thorough() { 2 } else { 1 };
    let hs = hdr_small(seed);
    let mut roots = Vec::new();
    for s in suites() {
        for m in 0..=2usize {
            roots.push(Root { id: format!("{}/commitment/M{}", s.name(), m), suite: s, l: 1, m, hn: "16B".into(), header: hs[2].1.clone(), part: Part::Commitment });
        }
        // two disclosed messages on each side (needed for edits that permute an index list against its messages)
        roots.push(Root { id: format!("{}/blind-proof/L3/M3/h=16B/structural/two-disclosed", s.name()), suite: s, l: 3, m: 3, hn: "16B".into(), header: hs[2].1.clone(), part: Part::BlindProof { flips: (0, 0) } });
        let shapes: Vec<(usize, usize)> = if env.thorough() { vec![(0, 0), (0, 1), (1, 0), (1, 1), (2, 1), (1, 2), (2, 2), (3, 2)] } else { vec![(0, 0), (0, 1), (1, 0), (1, 1), (2, 2)] };
        for (l, m) in shapes {
            for (hn, h) in [hs[0].clone(), hs[2].clone()] {
                roots.push(Root { id: format!("{}/blind-signature/L{}/M{}/h={}", s.name(), l, m, hn), suite: s, l, m, hn: hn.clone(), header: h.clone(), part: Part::BlindSig });
                roots.push(Root { id: format!("{}/blind-proof/L{}/M{}/h={}/structural", s.name(), l, m, hn), suite: s, l, m, hn: hn.clone(), header: h.clone(), part: Part::BlindProof { flips: (0, 0) } });
                // all proof bit flips: quick on the (1,1) and (2,2) shapes with header, thorough on every shape
                if env.thorough() || (hn == "16B" && ((l, m) == (1, 1) || (l, m) == (2, 2))) {
                    let nbits = (272 + 32 * (l + m + 1 - (l.min(1) + m.min(1)))) * 8;
                    let mut a = 0;
                    while a < nbits { roots.push(Root { id: format!("{}/blind-proof/L{}/M{}/h={}/flips{}", s.name(), l, m, hn, a), suite: s, l, m, hn: hn.clone(), header: h.clone(), part: Part::BlindProof { flips: (a, (a + 384).min(nbits)) } }); a += 384; }
                }
            }
        }
    }
    env.ctx.set_rule("(a) commitments with M in {0,1,2} committed messages: ALL single-bit flips of the serialized commitment-with-proof, commitment point of run A with proof of run B, commitment made under the other suite, remove each m^, append a scalar, 1..=33 trailing octets, truncations => blind_sign must refuse; (b) blind signatures over (L,M) shapes: full message edit sets on signer and committed lists, moving a message between the lists, blinding factor in {None,0,blind+-1}, header, pk, all 640 signature bit flips, other suite, plain interface; (c) blind proofs: message/index edits on both lists, L in {L+-1,0,U+R-1,U+R,2^32,usize::MAX}, moving a disclosure between lists, ph, header, pk, proof bit flips, other suite, plain interface. Thorough: ordered pairs of structural edits. Unsorted/duplicated index lists: crash-only. State = edited statement; non-trivial = real verifier/signer ran and was compared with semantic + reference verdicts.");
    env.ctx.extra("deviation_bound_completed", json!(bound));
    crate::hist::explore_families(env, &['B'], "blind interface histories");
    par_for(&roots, |_, r| {
        if !env.want(&r.id) || env.ctx.out_of_time() { return; }
        let zk = z(r.suite);
        let k = key(r.suite, "k0");
        let msgs = distinct_msgs(seed, "c06m", r.l);
        let cms = distinct_msgs(seed, "c06c", r.m);
        let det0 = json!({"suite": r.suite.name(), "L": r.l, "M": r.m, "header": r.hn, "messages": hexv(&msgs), "committed": hexv(&cms)});
        let (cwp, blind) = match zk.commit(Some(&cms)) { O::Ok(x) => x, o => { env.ctx.violation("C06:base-commit-failed", &o.describe(), env.case(&r.id, det0)); return; } };
        env.ctx.step();
        match &r.part {
            Part::Commitment => commitment_part(env, r, &k, &msgs, &cms, &cwp, &det0),
            Part::BlindSig => {
                let sig = match zk.blind_sign(&k.sk, &k.pk, Some(&cwp), oh(&r.header), Some(&msgs)) { O::Ok(s) => s, o => { env.ctx.violation("C06:base-blind-sign-failed", &o.describe(), env.case(&r.id, det0)); return; } };
                env.ctx.step();
                let base = Bs { suite: r.suite, pk: k.pk.clone(), sig, header: hb(&r.header).to_vec(), msgs: msgs.clone(), cmsgs: cms.clone(), blind, blind_none: false, plain_iface: false };
                let letters: Vec<Vec<u8>> = vec![vec![], vec![0x01], mccore::fill(seed, "c06-letter", 32)];
                let mut ed_: Vec<Ed<Bs>> = message_list_edits::<Bs>(&base.msgs, &letters, "msg", |s| &s.msgs, |s, m| Bs { msgs: m, ..s.clone() });
                ed_.extend(message_list_edits::<Bs>(&base.cmsgs, &letters, "cmsg", |s| &s.cmsgs, |s, m| Bs { cmsgs: m, ..s.clone() }));
                ed_.extend(header_edits::<Bs>(seed, "header", |s| &s.header, |s, h| Bs { header: h, ..s.clone() }));
                ed_.push(ed("move last signer message to the front of the committed list".into(), "move-msg-to-committed", true, |s: &Bs| { let mut m = s.msgs.clone(); let x = m.pop()?; let mut c = s.cmsgs.clone(); c.insert(0, x); Some(Bs { msgs: m, cmsgs: c, ..s.clone() }) }));
                ed_.push(ed("move first committed message to the end of the signer list".into(), "move-committed-to-msg", true, |s: &Bs| { if s.cmsgs.is_empty() { return None; } let mut c = s.cmsgs.clone(); let x = c.remove(0); let mut m = s.msgs.clone(); m.push(x); Some(Bs { msgs: m, cmsgs: c, ..s.clone() }) }));
                ed_.push(ed("blind := 0".into(), "blind-zero", true, |s: &Bs| { if s.blind == [0u8; 32] { return None; } Some(Bs { blind: [0u8; 32], ..s.clone() }) }));
                ed_.push(ed("blind := None".into(), "blind-none", false, |s: &Bs| { if s.blind == [0u8; 32] && s.blind_none { return None; } Some(Bs { blind: [0u8; 32], blind_none: true, ..s.clone() }) }));
                ed_.push(ed("blind += 1".into(), "blind-plus-1", true, |s: &Bs| Some(Bs { blind: sc_add(&s.blind, 1), ..s.clone() })));
                ed_.push(ed("blind -= 1".into(), "blind-minus-1", false, |s: &Bs| Some(Bs { blind: sc_add(&s.blind, -1), ..s.clone() })));
                for s2 in suites() { for kk in keys(s2) { let pk = kk.pk.clone(); ed_.push(ed(format!("pk := {}/{}", s2.name(), kk.id), "pk-replace", kk.id == "k1", move |s: &Bs| { if s.pk == pk { return None; } Some(Bs { pk: pk.clone(), ..s.clone() }) })); } }
                for bit in 0..640 { let cls = if bit < 384 { "sigflip-A" } else { "sigflip-e" }; ed_.push(ed(format!("sig flip bit {bit}"), cls, false, move |s: &Bs| Some(Bs { sig: flip(&s.sig, bit), ..s.clone() }))); }
                ed_.push(ed("verify under the other ciphersuite".into(), "cross-suite", true, |s: &Bs| Some(Bs { suite: s.suite.other(), ..s.clone() })));
                ed_.push(ed("verify through the plain interface (signer messages only)".into(), "cross-interface", false, |s: &Bs| { if s.plain_iface { return None; } Some(Bs { plain_iface: true, ..s.clone() }) }));
                let base_ref_ok = std::cell::Cell::new(true);
                let (_s, tr) = explore(&base, &ed_, bound, &|s| s.key(), &mut |v| {
                    env.ctx.state(&[r.id.as_bytes(), &v.state.key()]);
                    let sem = v.state.stmt_eq(&base);
                    let got = v.state.verify_impl();
                    let cls = if v.classes.is_empty() { "honest".to_string() } else { v.classes.join("+") };
                    expect(env, &r.id, &format!("verify_blind_sign after [{}]", v.path.join("; ")), &got, sem, &format!("blind-signature:{}", cls), json!({"base": det0, "edits": v.path}));
                    let rf = v.state.verify_ref();
                    if v.path.is_empty() && rf.is_err() { base_ref_ok.set(false); env.ctx.violation("C06:base-artefact:reference-rejects", &format!("the implementation's honest blind signature is rejected by the reference: {:?}", rf), env.case(&r.id, det0.clone())); }
                    else if base_ref_ok.get() && rf.is_ok() != sem { env.machinery(&format!("C06 reference {:?} != semantic {} at {} [{}]", rf, sem, r.id, v.path.join("; "))); }
                    env.ctx.class(&format!("sig:{}:{}", if sem { "accept" } else { "reject" }, v.classes.first().copied().unwrap_or("honest")));
                    env.ctx.trace();
                });
                env.ctx.add_extra("edit_transitions", tr);
            }
            Part::BlindProof { flips } => {
                let sig = match zk.blind_sign(&k.sk, &k.pk, Some(&cwp), oh(&r.header), Some(&msgs)) { O::Ok(s) => s, o => { env.ctx.violation("C06:base-blind-sign-failed", &o.describe(), env.case(&r.id, det0)); return; } };
                // disclose the first signer message and the first committed message (when present)
                let two = r.id.ends_with("/two-disclosed");
                let d: Vec<usize> = if two { vec![0, r.l - 1] } else if r.l > 0 { vec![0] } else { vec![] };
                let dc: Vec<usize> = if two { vec![0, r.m - 1] } else if r.m > 0 { vec![0] } else { vec![] };
                let ph = hb(&r.header).to_vec();
                let proof = match zk.blind_proof_gen(&k.pk, &sig, oh(&r.header), Some(&ph), Some(&msgs), Some(&cms), Some(&d), Some(&dc), Some(&blind)) { O::Ok(p) => p, o => { env.ctx.violation("C06:base-blind-proof-gen-failed", &o.describe(), env.case(&r.id, det0)); return; } };
                env.ctx.steps(2);
                let base = Bp { suite: r.suite, pk: k.pk.clone(), proof, header: hb(&r.header).to_vec(), ph, l: r.l, dmsgs: d.iter().map(|&i| msgs[i].clone()).collect(), dcmsgs: dc.iter().map(|&i| cms[i].clone()).collect(), idx: d.clone(), cidx: dc.clone(), plain_iface: false, none_empty: false, l_none: false };
                let letters: Vec<Vec<u8>> = vec![vec![], vec![0x01], mccore::fill(seed, "c06-letter", 32)];
                let mut ed_: Vec<Ed<Bp>> = Vec::new();
                if flips.1 > 0 {
                    for bit in flips.0..flips.1.min(base.proof.len() * 8) { ed_.push(ed(format!("proof flip bit {bit}"), "proofflip", false, move |s: &Bp| { if bit / 8 >= s.proof.len() { return None; } Some(Bp { proof: flip(&s.proof, bit), ..s.clone() }) })); }
                } else {
                    ed_.extend(message_list_edits::<Bp>(&base.dmsgs, &letters, "dmsg", |s| &s.dmsgs, |s, m| Bp { dmsgs: m, ..s.clone() }));
                    ed_.extend(message_list_edits::<Bp>(&base.dcmsgs, &letters, "dcmsg", |s| &s.dcmsgs, |s, m| Bp { dcmsgs: m, ..s.clone() }));
                    ed_.extend(header_edits::<Bp>(seed, "header", |s| &s.header, |s, h| Bp { header: h, ..s.clone() }));
                    ed_.extend(header_edits::<Bp>(seed, "ph", |s| &s.ph, |s, h| Bp { ph: h, ..s.clone() }));
                    let n = r.l + r.m + 1;
                    let u = n - d.len() - dc.len();
                    for lv in [r.l + 1, r.l.wrapping_sub(1), 0, u + d.len() + dc.len() - 1, u + d.len() + dc.len(), 1usize << 32, usize::MAX - 1, usize::MAX] {
                        ed_.push(ed(format!("L := {lv}"), "L-replace", lv == r.l + 1 || lv == 0, move |s: &Bp| { if s.l == lv { return None; } Some(Bp { l: lv, ..s.clone() }) }));
                    }
                    for val in [0usize, 1, r.l.wrapping_sub(1), r.l, r.l + 1, r.m, r.m + 1, 1 << 32, 1 << 63, usize::MAX - 1, usize::MAX] {
                        ed_.push(ed(format!("idx[0] := {val}"), "idx-replace", val <= 1, move |s: &Bp| { if s.idx.is_empty() || s.idx[0] == val { return None; } let mut i = s.idx.clone(); i[0] = val; Some(Bp { idx: i, ..s.clone() }) }));
                        ed_.push(ed(format!("cidx[0] := {val}"), "cidx-replace", val <= 1, move |s: &Bp| { if s.cidx.is_empty() || s.cidx[0] == val { return None; } let mut i = s.cidx.clone(); i[0] = val; Some(Bp { cidx: i, ..s.clone() }) }));
                        for (li, lt) in letters.iter().enumerate().take(2) {
                            let lt1 = lt.clone(); let lt2 = lt.clone();
                            ed_.push(ed(format!("add signer disclosure ({val}, letter{li})"), "disclosure-add", false, move |s: &Bp| { if s.idx.contains(&val) || s.idx.len() != s.dmsgs.len() { return None; } let pos = s.idx.iter().position(|&x| x > val).unwrap_or(s.idx.len()); let mut i = s.idx.clone(); let mut m = s.dmsgs.clone(); i.insert(pos, val); m.insert(pos, lt1.clone()); Some(Bp { idx: i, dmsgs: m, ..s.clone() }) }));
                            ed_.push(ed(format!("add committed disclosure ({val}, letter{li})"), "cdisclosure-add", false, move |s: &Bp| { if s.cidx.contains(&val) || s.cidx.len() != s.dcmsgs.len() { return None; } let pos = s.cidx.iter().position(|&x| x > val).unwrap_or(s.cidx.len()); let mut i = s.cidx.clone(); let mut m = s.dcmsgs.clone(); i.insert(pos, val); m.insert(pos, lt2.clone()); Some(Bp { cidx: i, dcmsgs: m, ..s.clone() }) }));
                        }
                    }
                    ed_.push(ed("drop signer disclosure #0".into(), "disclosure-drop", true, |s: &Bp| { if s.idx.is_empty() || s.dmsgs.is_empty() { return None; } Some(Bp { idx: s.idx[1..].to_vec(), dmsgs: s.dmsgs[1..].to_vec(), ..s.clone() }) }));
                    ed_.push(ed("drop committed disclosure #0".into(), "cdisclosure-drop", true, |s: &Bp| { if s.cidx.is_empty() || s.dcmsgs.is_empty() { return None; } Some(Bp { cidx: s.cidx[1..].to_vec(), dcmsgs: s.dcmsgs[1..].to_vec(), ..s.clone() }) }));
                    ed_.push(ed("move last disclosed signer message into the committed list (messages only)".into(), "move-message-only", true, |s: &Bp| { let mut m = s.dmsgs.clone(); let x = m.pop()?; let mut c = s.dcmsgs.clone(); c.insert(0, x); Some(Bp { dmsgs: m, dcmsgs: c, ..s.clone() }) }));
                    ed_.push(ed("move first disclosed committed message into the signer list (messages only)".into(), "move-message-only", true, |s: &Bp| { if s.dcmsgs.is_empty() { return None; } let mut c = s.dcmsgs.clone(); let x = c.remove(0); let mut m = s.dmsgs.clone(); m.push(x); Some(Bp { dmsgs: m, dcmsgs: c, ..s.clone() }) }));
                    // spellings: empty lists as None, L as None; alone they change nothing, together with a moved message they must not
                    // relax the per-list checks
                    ed_.push(ed("empty lists spelled None".into(), "spelling", true, |s: &Bp| { if s.none_empty || !(s.dmsgs.is_empty() || s.dcmsgs.is_empty() || s.idx.is_empty() || s.cidx.is_empty()) { return None; } Some(Bp { none_empty: true, ..s.clone() }) }));
                    ed_.push(ed("L passed as None".into(), "L-none", true, |s: &Bp| { if s.l_none { return None; } Some(Bp { l_none: true, ..s.clone() }) }));
                    ed_.push(ed("move last disclosed signer message into the committed list (messages only), empty lists spelled None".into(), "move-message-only", true, |s: &Bp| { let mut m = s.dmsgs.clone(); let x = m.pop()?; let mut c = s.dcmsgs.clone(); c.insert(0, x); Some(Bp { dmsgs: m, dcmsgs: c, none_empty: true, ..s.clone() }) }));
                    ed_.push(ed("move first disclosed committed message into the signer list (messages only), empty lists spelled None".into(), "move-message-only", true, |s: &Bp| { if s.dcmsgs.is_empty() { return None; } let mut c = s.dcmsgs.clone(); let x = c.remove(0); let mut m = s.dmsgs.clone(); m.push(x); Some(Bp { dmsgs: m, dcmsgs: c, none_empty: true, ..s.clone() }) }));
                    // index lists permuted against their message lists (judged by the unordered-list rule: no undisclosed pair may be accepted)
                    ed_.push(ed("swap idx[0]<->idx[1] (messages unchanged)".into(), "idx-swap", true, |s: &Bp| { if s.idx.len() < 2 { return None; } let mut i = s.idx.clone(); i.swap(0, 1); Some(Bp { idx: i, ..s.clone() }) }));
                    ed_.push(ed("swap cidx[0]<->cidx[1] (messages unchanged)".into(), "cidx-swap", true, |s: &Bp| { if s.cidx.len() < 2 { return None; } let mut i = s.cidx.clone(); i.swap(0, 1); Some(Bp { cidx: i, ..s.clone() }) }));
                    // relabel a disclosed committed message as a signer message at its absolute position L + 1 + j (and the converse)
                    ed_.push(ed("relabel committed disclosure #0 as a signer disclosure at position L+1+j".into(), "relabel-committed-as-signer", true, |s: &Bp| { if s.dcmsgs.is_empty() || s.cidx.is_empty() { return None; } let mut c = s.dcmsgs.clone(); let x = c.remove(0); let mut ci = s.cidx.clone(); let j = ci.remove(0); let pos = j.checked_add(s.l)?.checked_add(1)?; let mut m = s.dmsgs.clone(); let mut i = s.idx.clone(); let at = i.iter().position(|&y| y > pos).unwrap_or(i.len()); if at > m.len() { return None; } m.insert(at, x); i.insert(at, pos); Some(Bp { dmsgs: m, idx: i, dcmsgs: c, cidx: ci, ..s.clone() }) }));
                    ed_.push(ed("relabel signer disclosure #last as a committed disclosure at index i-L-1 (wrapping)".into(), "relabel-signer-as-committed", false, |s: &Bp| { let mut m = s.dmsgs.clone(); let x = m.pop()?; let mut i = s.idx.clone(); let xi = i.pop()?; let j = xi.wrapping_sub(s.l).wrapping_sub(1); let mut c = s.dcmsgs.clone(); let mut ci = s.cidx.clone(); c.push(x); ci.push(j); Some(Bp { dmsgs: m, idx: i, dcmsgs: c, cidx: ci, ..s.clone() }) }));
                    ed_.push(ed("move signer disclosure #last to the committed side (message and index)".into(), "move-disclosure", true, |s: &Bp| { let mut m = s.dmsgs.clone(); let x = m.pop()?; let mut i = s.idx.clone(); let xi = i.pop()?; if s.cidx.contains(&xi) { return None; } let mut c = s.dcmsgs.clone(); let mut ci = s.cidx.clone(); let pos = ci.iter().position(|&y| y > xi).unwrap_or(ci.len()); c.insert(pos, x); ci.insert(pos, xi); Some(Bp { dmsgs: m, idx: i, dcmsgs: c, cidx: ci, ..s.clone() }) }));
                    ed_.push(ed("move committed disclosure #0 to the signer side (message and index)".into(), "move-disclosure", true, |s: &Bp| { if s.dcmsgs.is_empty() || s.cidx.is_empty() { return None; } let mut c = s.dcmsgs.clone(); let x = c.remove(0); let mut ci = s.cidx.clone(); let xi = ci.remove(0); if s.idx.contains(&xi) { return None; } let mut m = s.dmsgs.clone(); let mut i = s.idx.clone(); let pos = i.iter().position(|&y| y > xi).unwrap_or(i.len()); m.insert(pos, x); i.insert(pos, xi); Some(Bp { dmsgs: m, idx: i, dcmsgs: c, cidx: ci, ..s.clone() }) }));
                    for s2 in suites() { for kk in keys(s2) { let pk = kk.pk.clone(); ed_.push(ed(format!("pk := {}/{}", s2.name(), kk.id), "pk-replace", kk.id == "k1", move |s: &Bp| { if s.pk == pk { return None; } Some(Bp { pk: pk.clone(), ..s.clone() }) })); } }
                    for j in 0..u { ed_.push(ed(format!("remove m^_{j}"), "mhat-remove", true, move |s: &Bp| { let off = 240 + 32 * j; if s.proof.len() < off + 64 { return None; } let mut p = s.proof.clone(); p.drain(off..off + 32); Some(Bp { proof: p, ..s.clone() }) })); }
                    ed_.push(ed("append fresh scalar before the challenge".into(), "mhat-append", true, |s: &Bp| { if s.proof.len() < 272 { return None; } let at = s.proof.len() - 32; let mut p = s.proof.clone(); p.splice(at..at, refbbs::sc_bytes(&refbbs::random_scalar_from(b"c06", b"fresh", 3)).to_vec()); Some(Bp { proof: p, ..s.clone() }) }));
                    ed_.push(ed("verify under the other ciphersuite".into(), "cross-suite", true, |s: &Bp| Some(Bp { suite: s.suite.other(), ..s.clone() })));
                    ed_.push(ed("verify through the plain interface".into(), "cross-interface", false, |s: &Bp| { if s.plain_iface { return None; } Some(Bp { plain_iface: true, ..s.clone() }) }));
                }
                let b = if flips.1 > 0 { 1 } else { bound };
                let base_ref_ok = std::cell::Cell::new(true);
                let (_s, tr) = explore(&base, &ed_, b, &|s| s.key(), &mut |v| {
                    env.ctx.state(&[r.id.as_bytes(), &v.state.key()]);
                    let got = v.state.verify_impl();
                    let cls = if v.classes.is_empty() { "honest".to_string() } else { v.classes.join("+") };
                    let det = json!({"base": det0, "edits": v.path, "L": v.state.l.to_string(), "idx": format!("{:?}", v.state.idx), "cidx": format!("{:?}", v.state.cidx), "dmsgs": hexv(&v.state.dmsgs), "dcmsgs": hexv(&v.state.dcmsgs)});
                    if !v.state.in_contract() {
                        // not strictly ascending: refusal is fine; acceptance only if every claimed (list, position, message) pair is disclosed by the proof
                        env.ctx.step();
                        let tp: Vec<(usize, &Vec<u8>)> = base.idx.iter().copied().zip(base.dmsgs.iter()).collect();
                        let tc: Vec<(usize, &Vec<u8>)> = base.cidx.iter().copied().zip(base.dcmsgs.iter()).collect();
                        let claim_true = v.state.dmsgs.len() <= v.state.idx.len() && v.state.dcmsgs.len() <= v.state.cidx.len() && v.state.idx.iter().copied().zip(v.state.dmsgs.iter()).all(|p| tp.contains(&p)) && v.state.cidx.iter().copied().zip(v.state.dcmsgs.iter()).all(|p| tc.contains(&p))
                            && v.state.l == base.l && v.state.pk == base.pk && v.state.header == base.header && v.state.ph == base.ph && v.state.proof == base.proof && v.state.suite == base.suite && v.state.plain_iface == base.plain_iface;
                        match &got {
                            O::Panic(p) => env.ctx.violation(&format!("C06:unordered-index-list:{}:panic", cls), &format!("verifier panicked: {}", p), env.case(&r.id, det)),
                            O::Ok(_) if !claim_true => env.ctx.violation(&format!("C06:unordered-index-list:{}:accepted", cls), &format!("blind_proof_verify accepted a claim with a pair that is not disclosed by the proof, after [{}]", v.path.join("; ")), env.case(&r.id, det)),
                            _ => {}
                        }
                        env.ctx.class(&format!("unordered-index-list:{}", got.kind()));
                        env.ctx.trace();
                        return;
                    }
                    let sem = v.state.stmt() == base.stmt();
                    expect(env, &r.id, &format!("blind_proof_verify after [{}]", v.path.join("; ")), &got, sem, &format!("blind-proof:{}", cls), det);
                    let skip_ref = !env.thorough() && cls == "proofflip" && !got.is_ok();
                    let rf = if skip_ref { Err("skipped".into()) } else { v.state.verify_ref() };
                    if v.path.is_empty() && rf.is_err() { base_ref_ok.set(false); env.ctx.violation("C06:base-artefact:reference-rejects", &format!("the implementation's honest blind proof is rejected by the reference: {:?}", rf), env.case(&r.id, det0.clone())); }
                    else if base_ref_ok.get() && !skip_ref && rf.is_ok() != sem { env.machinery(&format!("C06 reference {:?} != semantic {} at {} [{}]", rf, sem, r.id, v.path.join("; "))); }
                    env.ctx.class(&format!("proof:{}:{}", if sem { "accept" } else { "reject" }, v.classes.first().copied().unwrap_or("honest")));
                    env.ctx.trace();
                    if v.path.len() == 1 && v.path[0].starts_with("L :=") { env.ctx.sample(json!({"root": r.id, "edits": v.path, "verdict": got.kind()})); }
                });
                env.ctx.add_extra("edit_transitions", tr);
            }
        }
    });
}

fn commitment_part(env: &Env, r: &Root, k: &Key, msgs: &[Vec<u8>], cms: &[Vec<u8>], cwp: &[u8], det0: &serde_json::Value) {
    let zk = z(r.suite);
    let seed = env.ctx.seed;
    let mut cands: Vec<(String, &'static str, Vec<u8>)> = Vec::new();
    for bit in 0..cwp.len() * 8 { cands.push((format!("commitment flip bit {bit}"), if bit < 384 { "commitment-flip-C" } else { "commitment-flip-proof" }, flip(cwp, bit))); }
    // commitment point of this run with the proof of another run (other messages)
    let other_msgs = distinct_msgs(seed, "c06-other", r.m);
    if let O::Ok((c2, _)) = zk.commit(Some(&other_msgs)) {
        let mut x = cwp[..48].to_vec(); x.extend_from_slice(&c2[48..]);
        cands.push(("commitment of run A with proof of run B".into(), "commitment-cross-run", x));
        let mut y = c2[..48].to_vec(); y.extend_from_slice(&cwp[48..]);
        cands.push(("commitment of run B with proof of run A".into(), "commitment-cross-run", y));
    }
    if let O::Ok((c3, _)) = z(r.suite.other()).commit(Some(cms)) { cands.push(("commitment made under the other ciphersuite".into(), "commitment-cross-suite", c3)); }
    for j in 0..r.m { let mut x = cwp.to_vec(); x.drain(80 + 32 * j..112 + 32 * j); cands.push((format!("remove m^_{j}"), "commitment-mhat-remove", x)); }
    for (nm, sc) in [("zero", vec![0u8; 32]), ("fresh", refbbs::sc_bytes(&refbbs::random_scalar_from(b"c06", b"c", 1)).to_vec())] { let mut x = cwp.to_vec(); let at = x.len() - 32; x.splice(at..at, sc); cands.push((format!("append {nm} scalar before the challenge"), "commitment-mhat-append", x)); }
    for t in 1..=33usize { let mut x = cwp.to_vec(); x.extend(vec![0u8; t]); cands.push((format!("{t} trailing zero octets"), "commitment-trailing", x)); }
    // many whole scalars inserted before the challenge (a count kept in a narrow integer wraps at 256 / 65536)
    for k in [255usize, 256, 257, 512] { for (nm, fresh) in [("zero", false), ("fresh", true)] {
        let mut x = cwp.to_vec(); let at = x.len() - 32;
        let ins: Vec<u8> = (0..k).flat_map(|j| if fresh { refbbs::sc_bytes(&refbbs::random_scalar_from(b"c06", b"ins", j as u64 + 7)).to_vec() } else { vec![0u8; 32] }).collect();
        x.splice(at..at, ins); cands.push((format!("insert {k} {nm} scalars before the challenge"), "commitment-many-scalars", x));
    } }
    for t in [1usize, 31, 32, 33, 64] { if cwp.len() > t { cands.push((format!("truncate by {t} octets"), "commitment-truncate", cwp[..cwp.len() - t].to_vec())); } }
    // the identity as commitment point with a proof that is not about it: this run's own proof scalars, and fresh scalars
    { let mut id = vec![0u8; 48]; id[0] = 0xc0;
      let mut x = id.clone(); x.extend_from_slice(&cwp[48..]); cands.push(("commitment point := Identity_G1, proof of this run kept".into(), "commitment-identity-point", x));
      let mut y = id.clone(); for j in 0..(cwp.len() - 48) / 32 { y.extend_from_slice(&refbbs::sc_bytes(&refbbs::random_scalar_from(b"c06", b"id", j as u64 + 1))); } cands.push(("commitment point := Identity_G1, fresh proof scalars".into(), "commitment-identity-point", y)); }
    // honest first
    let ok = zk.blind_sign(&k.sk, &k.pk, Some(cwp), oh(&r.header), Some(msgs));
    env.ctx.state(&[r.id.as_bytes(), b"honest"]);
    expect(env, &r.id, "blind_sign(honest commitment)", &ok, true, "commitment:honest", det0.clone());
    env.ctx.trace();
    for (name, cls, bytes) in cands {
        if bytes == cwp { continue; }
        if !env.ctx.state(&[r.id.as_bytes(), &bytes]) { continue; }
        let got = zk.blind_sign(&k.sk, &k.pk, Some(&bytes), oh(&r.header), Some(msgs));
        expect(env, &r.id, &format!("blind_sign after [{}]", name), &got, false, &format!("commitment:{}", cls), json!({"base": det0, "edit": name, "commitment_with_proof": hex::encode(&bytes)}));
        let rf = refbbs::deserialize_and_validate_commit(r.suite, &bytes);
        if rf.is_ok() { env.machinery(&format!("C06 reference accepted damaged commitment at {} [{}]", r.id, name)); }
        env.ctx.class(&format!("refuse:{}", cls));
        env.ctx.trace();
        if name.starts_with("commitment of run") { env.ctx.sample(json!({"root": r.id, "edit": name, "verdict": got.kind()})); }
    }
}
