//! Shared alphabets and helpers for the BBS property checks.
#![allow(non_snake_case)]
use crate::zk::{zk, Zk};
use mccore::{fill, O};
use refbbs::{Suite, SUITES};
use serde_json::Value;

pub use mccore::Env;

#[derive(Clone)]
pub struct Key {
    pub id: &'static str,
    pub suite: Suite,
    pub sk: Vec<u8>,
    pub pk: Vec<u8>,
}

/// k0: ikm 32x00; k1: ikm 32xff + key_info "info"; k2: 64-byte ikm + custom key_dst. Derived with the
/// reference KeyGen (the implementation's KeyGen is checked against it in C10).
pub fn keys(s: Suite) -> Vec<Key> {
    let mk = |id, ikm: &[u8], info: &[u8], dst: Option<&[u8]>| {
        let sk = refbbs::keygen(s, ikm, info, dst).unwrap();
        Key { id, suite: s, sk: refbbs::sc_bytes(&sk).to_vec(), pk: refbbs::sk_to_pk(&sk).to_vec() }
    };
    vec![
        mk("k0", &[0u8; 32], b"", None),
        mk("k1", &[0xffu8; 32], b"info", None),
        mk("k2", &fill(1, "ikm-k2", 64), b"", Some(b"custom-key-dst")),
    ]
}
pub fn key(s: Suite, id: &str) -> Key {
    keys(s).into_iter().find(|k| k.id == id).unwrap()
}

/// Header / presentation-header alphabet: None, empty, 1 B, 16 B, 255 B, 256 B, 65536 B.
pub fn hdr_alphabet(seed: u64) -> Vec<(String, Option<Vec<u8>>)> {
    vec![
        ("none".into(), None),
        ("empty".into(), Some(vec![])),
        ("1B".into(), Some(vec![0x5a])),
        ("16B".into(), Some(fill(seed, "hdr16", 16))),
        ("255B".into(), Some(fill(seed, "hdr255", 255))),
        ("256B".into(), Some(fill(seed, "hdr256", 256))),
        ("65536B".into(), Some(fill(seed, "hdr65536", 65536))),
    ]
}
pub fn hdr_small(seed: u64) -> Vec<(String, Option<Vec<u8>>)> {
    let a = hdr_alphabet(seed);
    vec![a[0].clone(), a[1].clone(), a[3].clone()]
}

/// Message letters: "", 00, 01, 32 B, 255 B, 256 B, 4096 B.
pub fn msg_letters(seed: u64) -> Vec<Vec<u8>> {
    vec![
        vec![],
        vec![0x00],
        vec![0x01],
        fill(seed, "msg32", 32),
        fill(seed, "msg255", 255),
        fill(seed, "msg256", 256),
        fill(seed, "msg4096", 4096),
    ]
}

/// L pairwise distinct short messages (for shapes where only the count matters).
pub fn distinct_msgs(seed: u64, label: &str, n: usize) -> Vec<Vec<u8>> {
    (0..n).map(|i| fill(seed, &format!("{}-{}", label, i), 1 + (i % 13))).collect()
}

pub fn oh(h: &Option<Vec<u8>>) -> Option<&[u8]> {
    h.as_deref()
}
pub fn hb(h: &Option<Vec<u8>>) -> &[u8] {
    h.as_deref().unwrap_or(b"")
}

pub fn suites() -> [Suite; 2] {
    SUITES
}

pub fn z(s: Suite) -> &'static dyn Zk {
    zk(s)
}

pub fn msgs_digest(m: &[Vec<u8>]) -> Vec<u8> {
    use sha2::{Digest, Sha256};
    let mut h = Sha256::new();
    h.update((m.len() as u64).to_be_bytes());
    for x in m {
        h.update((x.len() as u64).to_be_bytes());
        h.update(x);
    }
    h.finalize().to_vec()
}

pub fn hexv(m: &[Vec<u8>]) -> Vec<String> {
    m.iter().map(|x| mccore::hexs(x)).collect()
}

/// Expectation helper: the implementation's outcome must be `Ok` iff `expect_ok`; a panic is always a violation.
/// Returns true when it matched.
pub fn expect<T>(env: &Env, root: &str, what: &str, got: &O<T>, expect_ok: bool, sig_class: &str, detail: Value) -> bool {
    env.ctx.step();
    let ok = match got {
        O::Ok(_) => expect_ok,
        O::Err(_) => !expect_ok,
        O::Panic(_) => false,
    };
    if !ok {
        let kind = match got {
            O::Ok(_) => "accepted",
            O::Err(_) => "rejected",
            O::Panic(_) => "panic",
        };
        env.ctx.violation(
            &format!("{}:{}:{}", env.ctx.prop, sig_class, kind),
            &format!("{}: expected {} got {}", what, if expect_ok { "Ok" } else { "Err" }, got.describe()),
            env.case(root, detail),
        );
    }
    ok
}

pub fn ref_ok<T>(r: &Result<T, String>) -> bool {
    r.is_ok()
}

pub fn flip(b: &[u8], bit: usize) -> Vec<u8> {
    let mut v = b.to_vec();
    v[bit / 8] ^= 0x80 >> (bit % 8);
    v
}
