//! C12 — signature update over any history (form B): explicit-state search with stateright over the REAL
//! update_signature. State = (message vector over V, current signature bytes); actions = update(i, v) for every
//! position and every value. The graph closes (3^L vectors), so BFS to fixpoint covers histories of every length;
//! a path-dependent implementation makes the state count exceed 3^L and the reference-formula invariant fire.
#![allow(non_snake_case)]
use crate::common::*;
use mccore::O;
use refbbs::Suite;
use serde_json::json;
use stateright::{Checker, Model, Property};

#[derive(Clone, Debug, PartialEq, Eq, Hash)]
pub struct St { vec: Vec<u8>, sig: Vec<u8>, broken: Option<String> }
#[derive(Clone, Debug, PartialEq, Eq, Hash)]
pub struct Update { i: usize, v: u8 }

pub struct M { suite: Suite, key: Key, header: Option<Vec<u8>>, values: Vec<Vec<u8>>, l: usize, init_sig: Vec<u8> }

impl M {
    fn msgs(&self, vec: &[u8]) -> Vec<Vec<u8>> { vec.iter().map(|&x| self.values[x as usize].clone()).collect() }
    /// the signature the key holder would obtain for this vector with the same exponent
    fn expected(&self, vec: &[u8]) -> Vec<u8> {
        let s = self.suite;
        let api = s.api_id();
        let (_, e) = refbbs::octets_to_signature(&self.init_sig).unwrap();
        let sk = refbbs::octets_to_scalar_strict(&self.key.sk).unwrap();
        let gens = refbbs::create_generators(s, self.l + 1, &api);
        let pk96: [u8; 96] = self.key.pk.clone().try_into().unwrap();
        let domain = refbbs::calculate_domain(s, &pk96, &gens[0], &gens[1..], hb(&self.header), &api).unwrap();
        let ms = refbbs::messages_to_scalars(s, &self.msgs(vec), &api).unwrap();
        let mut B = s.p1() + gens[0] * domain;
        for i in 0..self.l { B += gens[i + 1] * ms[i]; }
        let A = B * Option::<bls12_381_plus::Scalar>::from((sk + e).invert()).unwrap();
        [refbbs::g1_bytes(&A).to_vec(), refbbs::sc_bytes(&e).to_vec()].concat()
    }
}

impl Model for M {
    type State = St;
    type Action = Update;
    fn init_states(&self) -> Vec<St> { vec![St { vec: vec![0; self.l], sig: self.init_sig.clone(), broken: None }] }
    fn actions(&self, s: &St, a: &mut Vec<Update>) { if s.broken.is_some() { return; } for i in 0..self.l { for v in 0..self.values.len() as u8 { a.push(Update { i, v }); } } }
    fn next_state(&self, s: &St, a: Update) -> Option<St> {
        let zk = z(self.suite);
        let old = &self.values[s.vec[a.i] as usize];
        let new = &self.values[a.v as usize];
        let mut vec = s.vec.clone(); vec[a.i] = a.v;
        match zk.update_signature(&self.key.sk, &s.sig, old, new, a.i, self.l) {
            O::Ok(sig) => Some(St { vec, sig, broken: None }),
            other => Some(St { vec, sig: vec![], broken: Some(format!("update({}, value{}) failed: {}", a.i, a.v, other.describe())) }),
        }
    }
    fn properties(&self) -> Vec<Property<Self>> {
        // Only the cheap invariants live inside the search (stateright evaluates properties in blocks of 1500 states, so a
        // path-dependent implementation - whose graph never closes - must fail fast). When they hold, the reachable states are
        // exactly {(w, expected(w)) : w in V^L}; the expensive invariants are then evaluated on each of those states (heavy()).
        vec![
            Property::always("update succeeds for every in-range position", |_m: &M, s: &St| s.broken.is_none()),
            Property::always("current signature equals B(vector)/(sk+e) with the original e (hence path independent)", |m: &M, s: &St| s.broken.is_some() || s.sig == m.expected(&s.vec)),
        ]
    }
}

impl M {
    /// the expensive invariants on one reachable state; returns the names of the violated ones
    fn heavy(&self, s: &St) -> Vec<&'static str> {
        let m = self;
        let mut bad = Vec::new();
        if !z(m.suite).verify(&m.key.pk, &s.sig, oh(&m.header), Some(&m.msgs(&s.vec))).is_ok() { bad.push("current signature verifies for the current vector"); }
        let n = m.values.len();
        for code in 0..n.pow(m.l as u32) { let w: Vec<u8> = (0..m.l).map(|i| ((code / n.pow(i as u32)) % n) as u8).collect(); if w != s.vec && z(m.suite).verify(&m.key.pk, &s.sig, oh(&m.header), Some(&m.msgs(&w))).is_ok() { bad.push("current signature verifies for no other vector over V^L"); break; } }
        // out-of-range positions are refused for every (old, new) pair, including old == new (an "unchanged" shortcut must not come first)
        if ![m.l, m.l + 1, 1usize << 32, usize::MAX].iter().all(|&i| (0..m.values.len()).all(|a| (0..m.values.len()).all(|b| matches!(z(m.suite).update_signature(&m.key.sk, &s.sig, &m.values[a], &m.values[b], i, m.l), O::Err(_))))) { bad.push("out-of-range positions are refused"); }
        'outer: for i in 0..m.l { for wrong in 0..m.values.len() as u8 { if wrong == s.vec[i] { continue; } for newv in 0..m.values.len() as u8 {
            if let O::Ok(sig) = z(m.suite).update_signature(&m.key.sk, &s.sig, &m.values[wrong as usize], &m.values[newv as usize], i, m.l) {
                let mut w = s.vec.clone(); w[i] = newv;
                if z(m.suite).verify(&m.key.pk, &sig, oh(&m.header), Some(&m.msgs(&w))).is_ok() { bad.push("an update stating a wrong old value never verifies for the intended new vector"); break 'outer; }
            }
        } } }
        bad
    }
}

pub fn run(env: &Env) {
    let seed = env.ctx.seed;
    env.ctx.set_rule("stateright BFS to fixpoint over the real update_signature: state = (message vector in V^L, signature bytes), |V| = 3 (empty, 1 byte, 300 bytes), actions = update(i, v) for every i < L and v in V (includes no-op updates and updates to a value used elsewhere); L in {1,2,3} (thorough + 4), both suites, header in {none, 16B}; invariants inside the search on every state: update succeeds; sig = reference formula B(vector)/(sk+e) with the original e (path independence, hence exactly |V|^L states); then on each of the |V|^L reachable states: verify(sig, vector) = Ok; verify(sig, w) = Err for every other w in V^L; positions L, L+1, 2^32, usize::MAX refused; wrong-old-value updates never verify for the intended vector. The graph closes at |V|^L states, so histories of EVERY length are covered; plus one explicit 32-step chain per configuration, plus an update at EVERY position of a 260-message signature (thorough: also 66 and 1030 messages), plus ALL ordered triples of updates over {suite} x {position} interleaved on one thread, each compared with the reference formula. transitions = states x L x |V| real update calls (plus the calls made by the invariants).");
    env.ctx.assume("stateright 0.31 explicit-state checker; the transition function is the real (deterministic) update_signature");
    let values: Vec<Vec<u8>> = vec![vec![], vec![0x01], mccore::fill(seed, "c12-long", 300)];
    let maxl = if env.thorough() { 4 } else { 3 };
    let mut jobs: Vec<(String, Suite, String, Option<Vec<u8>>, usize)> = Vec::new();
    for s in suites() { for (hn, h) in [hdr_small(seed)[0].clone(), hdr_small(seed)[2].clone()] { for l in (1..=maxl).rev() { jobs.push((format!("{}/h={}/L{}", s.name(), hn, l), s, hn.clone(), h.clone(), l)); } } }
    // long vectors: an update at EVERY position of a 260-message signature (thorough: also 66 and 1030), compared with the reference formula
    // and verified: position-dependent slips in the generator selection (a counter truncated to one octet, a window boundary)
    {
        let ls: Vec<usize> = if env.thorough() { vec![66, 260, 1030] } else { vec![260] };
        let mut jobs: Vec<(Suite, usize, usize)> = Vec::new();
        for s in suites() { for &l in &ls { for i in 0..l { if l > 300 && !(i % 64 == 0 || i % 64 == 63 || i + 3 >= l || (250..=260).contains(&i) || (508..=516).contains(&i)) { continue; } jobs.push((s, l, i)); } } }
        let sigs: Vec<(Suite, usize, Key, Vec<Vec<u8>>, Vec<u8>)> = suites().into_iter().flat_map(|s| ls.iter().map(move |&l| (s, l))).map(|(s, l)| { let k = key(s, "k1"); let m = distinct_msgs(seed, "c12-long", l); let sk = refbbs::octets_to_scalar_strict(&k.sk).unwrap(); let sig = refbbs::sign(s, &sk, &k.pk.clone().try_into().unwrap(), b"long", &m).unwrap().to_vec(); (s, l, k, m, sig) }).collect();
        mccore::par_for(&jobs, |_, &(s, l, i)| {
            let root = format!("{}/long/L{}/position{}", s.name(), l, i);
            if !env.want(&root) || env.ctx.out_of_time() { return; }
            let (_, _, k, m, sig) = sigs.iter().find(|x| x.0 == s && x.1 == l).unwrap();
            env.ctx.state(&[root.as_bytes()]);
            let got = z(s).update_signature(&k.sk, sig, &m[i], b"updated value", i, l); env.ctx.step();
            let want = refbbs::update_signature(s, &refbbs::octets_to_scalar_strict(&k.sk).unwrap(), sig, &m[i], b"updated value", i, l).map(|x| x.to_vec());
            if got.clone().ok() != want.clone().ok() { env.ctx.violation("C12:long-vector:differs-from-reference-formula", &format!("update at position {} of {} messages differs from B(vector)/(sk+e): {}", i, l, got.describe()), env.case(&root, json!({"suite": s.name(), "L": l, "position": i}))); }
            else if i % 37 == 0 || i + 2 >= l || (252..=257).contains(&i) { let mut m2 = m.clone(); m2[i] = b"updated value".to_vec(); if let O::Ok(ns) = &got { if !z(s).verify(&k.pk, ns, Some(b"long"), Some(&m2)).is_ok() { env.ctx.violation("C12:long-vector:does-not-verify", &format!("updated signature (position {} of {}) does not verify for the current vector", i, l), env.case(&root, json!({"suite": s.name(), "L": l, "position": i}))); } env.ctx.step(); } }
            env.ctx.class("long-vector"); env.ctx.trace();
        });
    }
    // interleavings across configurations on ONE thread: all ordered triples over {suite} x {position}: hidden per-thread
    // state shared between ciphersuites or positions (a generator memo keyed on the position only) shows here
    if env.want("interleaved") {
        let letters: Vec<(Suite, usize)> = suites().into_iter().flat_map(|s| (0..3usize).map(move |i| (s, i))).collect();
        let l = 3usize;
        let setup: Vec<(Suite, Key, Vec<u8>)> = suites().into_iter().map(|s| { let k = key(s, "k1"); let sk = refbbs::octets_to_scalar_strict(&k.sk).unwrap(); let sig = refbbs::sign(s, &sk, &k.pk.clone().try_into().unwrap(), b"il", &vec![values[0].clone(); l]).unwrap().to_vec(); (s, k, sig) }).collect();
        for t in mccore::tuples(letters.len(), 3) {
            env.ctx.state(&[b"interleaved", &t.iter().map(|&x| x as u8).collect::<Vec<u8>>()]);
            for &li in &t {
                let (s, i) = letters[li];
                let (_, k, sig) = setup.iter().find(|x| x.0 == s).unwrap();
                let got = z(s).update_signature(&k.sk, sig, &values[0], &values[1], i, l); env.ctx.step();
                let want = refbbs::update_signature(s, &refbbs::octets_to_scalar_strict(&k.sk).unwrap(), sig, &values[0], &values[1], i, l).map(|x| x.to_vec());
                if got.clone().ok() != want.clone().ok() {
                    env.ctx.violation("C12:interleaved-suites-and-positions", &format!("update_signature({}, position {}) differs from the reference formula after the interleaving {:?}: {}", s.name(), i, t.iter().map(|&x| format!("{}@{}", letters[x].0.name(), letters[x].1)).collect::<Vec<_>>(), got.describe()), env.case("interleaved", json!({"sequence": t.iter().map(|&x| format!("{}@{}", letters[x].0.name(), letters[x].1)).collect::<Vec<_>>()})));
                }
            }
            env.ctx.class("interleaved"); env.ctx.trace();
        }
    }
    crate::hist::explore_families(env, &['U'], "update histories");
    mccore::par_for(&jobs, |_, (id, s, hn, h, l)| {
        let (s, l) = (*s, *l);
        if !env.want(id) || env.ctx.out_of_time() { return; }
        let k = key(s, "k1");
        let init_msgs: Vec<Vec<u8>> = vec![values[0].clone(); l];
        let init_sig = match z(s).sign(&k.sk, &k.pk, oh(&h), Some(&init_msgs)) { O::Ok(x) => x, o => { env.ctx.violation("C12:base-sign-failed", &o.describe(), env.case(id, json!({}))); return; } };
        let model = M { suite: s, key: k.clone(), header: h.clone(), values: values.clone(), l, init_sig };
        let expected_states = values.len().pow(l as u32);
        // a correct implementation closes the graph at |V|^L states; a path-dependent one never closes it: bound the search
        let cap = std::time::Duration::from_secs(if env.thorough() { 1800 } else { 240 });
        let t0 = std::time::Instant::now();
        let checker = model.checker().threads(2).finish_when(stateright::HasDiscoveries::AnyFailures).target_state_count(8 * expected_states + 64).timeout(cap).spawn_bfs().join();
        // a search cut by its wall-clock cap decides nothing about the state count: reported as a cap, never as a verdict
        let capped = t0.elapsed() + std::time::Duration::from_secs(1) >= cap;
        let unique = checker.unique_state_count();
        for i in 0..unique { env.ctx.state(&[id.as_bytes(), &(i as u32).to_be_bytes()]); }
        env.ctx.steps((unique * l * values.len()) as u64);
        for _ in 0..unique { env.ctx.trace(); }
        env.ctx.add_extra("stateright_states_generated", checker.state_count() as u64);
        env.ctx.extra(&format!("fixpoint:{}", id), json!({"unique_states": unique, "expected_3^L": expected_states, "max_depth": checker.max_depth()}));
        for (name, path) in checker.discoveries() {
            let acts: Vec<String> = path.clone().into_actions().iter().map(|a| format!("update(i={}, value{})", a.i, a.v)).collect();
            let last = path.last_state().clone();
            env.ctx.violation(&format!("C12:{}", name), &format!("{} violated after {:?}{}", name, acts, last.broken.map(|b| format!(" ({})", b)).unwrap_or_default()), env.case(id, json!({"suite": s.name(), "header": hn, "L": l, "updates": acts, "vector": last.vec})));
        }
        if checker.discoveries().is_empty() && unique == expected_states {
            let model = checker.model();
            let n = values.len();
            for code in 0..n.pow(l as u32) {
                let w: Vec<u8> = (0..l).map(|i| ((code / n.pow(i as u32)) % n) as u8).collect();
                let st = St { sig: model.expected(&w), vec: w.clone(), broken: None };
                env.ctx.steps((n.pow(l as u32) + 4 + l * n * (n - 1)) as u64);
                for name in model.heavy(&st) { env.ctx.violation(&format!("C12:{}", name), &format!("{} violated in the state with vector {:?} (reachable by updating the differing positions one by one)", name, w), env.case(id, json!({"suite": s.name(), "header": hn, "L": l, "vector": w}))); }
            }
        }
        if unique > expected_states {
            env.ctx.violation("C12:state-count:graph-does-not-close", &format!("update graph has at least {} states (search bounded), a path-independent implementation has exactly {}: the same vector is reached with different signatures", unique, expected_states), env.case(id, json!({"unique": unique, "expected": expected_states})));
        } else if unique != expected_states && checker.discoveries().is_empty() && capped {
            env.ctx.note(&format!("{}: stateright search stopped by its {} s wall-clock cap after {} of {} states; nothing is concluded from the state count of this root", id, cap.as_secs(), unique, expected_states));
        } else if unique != expected_states && checker.discoveries().is_empty() {
            env.ctx.violation("C12:state-count", &format!("update graph has {} states, expected {}", unique, expected_states), env.case(id, json!({"unique": unique})));
        }
        env.ctx.class(&format!("fixpoint:L{}", l));
        // one explicit 32-step chain
        let model = checker.model();
        let mut vec = vec![0u8; l]; let mut sig = model.init_sig.clone();
        let steps = mccore::fill(seed, &format!("c12-chain-{}", id), 64);
        let mut chain = Vec::new();
        for t in 0..32 {
            let (i, v) = ((steps[2 * t] as usize) % l, steps[2 * t + 1] % 3);
            chain.push(format!("update(i={}, value{})", i, v));
            match z(s).update_signature(&k.sk, &sig, &values[vec[i] as usize], &values[v as usize], i, l) {
                O::Ok(ns) => { sig = ns; vec[i] = v; env.ctx.step();
                    if sig != model.expected(&vec) || !z(s).verify(&k.pk, &sig, oh(&h), Some(&model.msgs(&vec))).is_ok() { env.ctx.violation("C12:chain", &format!("32-step chain diverges at step {}", t), env.case(id, json!({"chain": chain}))); break; } }
                o => { env.ctx.violation("C12:chain", &format!("32-step chain: update failed at step {}: {}", t, o.describe()), env.case(id, json!({"chain": chain}))); break; }
            }
        }
        env.ctx.state(&[id.as_bytes(), b"chain32"]); env.ctx.trace();
        if l == 2 { env.ctx.sample(json!({"root": id, "chain_prefix": chain.iter().take(4).cloned().collect::<Vec<_>>(), "fixpoint_states": unique})); }
    });
}
