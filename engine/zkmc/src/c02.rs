use crate::common::*;
pub fn run(_env: &Env) {}
