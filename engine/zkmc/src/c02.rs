//! C02 — BBS signature binding (form A, deviation bound 1; thorough: bound 2 over structural edits).
use crate::common::*;
use crate::edits::*;
use mccore::{par_for, O};
use refbbs::{Iface, Suite};
use serde_json::json;

#[derive(Clone, PartialEq, Eq)]
pub struct St {
    pub suite: Suite,
    pub iface: Iface,
    pub pk: Vec<u8>,
    pub sig: Vec<u8>,
    pub header: Vec<u8>,
    pub msgs: Vec<Vec<u8>>,
    // call form (not part of the statement): pass None instead of an empty value
    pub hdr_none: bool,
    pub msgs_none: bool,
}
impl St {
    fn statement_eq(&self, o: &St) -> bool {
        self.suite == o.suite && self.iface == o.iface && self.pk == o.pk && self.sig == o.sig && self.header == o.header && self.msgs == o.msgs
    }
    fn key(&self) -> Vec<u8> {
        let mut k = vec![self.suite as u8, self.iface as u8, self.hdr_none as u8, self.msgs_none as u8];
        k.extend_from_slice(&self.pk);
        k.extend_from_slice(&self.sig);
        k.extend_from_slice(&(self.header.len() as u64).to_be_bytes());
        k.extend_from_slice(&msgs_digest(&[self.header.clone()]));
        k.extend_from_slice(&msgs_digest(&self.msgs));
        k
    }
    pub fn verify_impl(&self) -> O<()> {
        let h: Option<&[u8]> = if self.hdr_none && self.header.is_empty() { None } else { Some(&self.header) };
        let m: Option<&[Vec<u8>]> = if self.msgs_none && self.msgs.is_empty() { None } else { Some(&self.msgs) };
        match self.iface {
            Iface::Plain => z(self.suite).verify(&self.pk, &self.sig, h, m),
            Iface::Blind => z(self.suite).verify_blind_sign(&self.pk, &self.sig, h, m, None, None),
        }
    }
    pub fn verify_ref(&self) -> Result<(), String> {
        match self.iface {
            Iface::Plain => refbbs::verify(self.suite, &self.pk, &self.sig, &self.header, &self.msgs),
            Iface::Blind => refbbs::verify_blind_sign(self.suite, &self.pk, &self.sig, &self.header, &self.msgs, &[], &bls12_381_plus::Scalar::ZERO),
        }
    }
}

pub fn message_list_edits<S: Clone + 'static>(
    msgs: &[Vec<u8>],
    letters: &[Vec<u8>],
    tag: &str,
    get: fn(&S) -> &Vec<Vec<u8>>,
    set: fn(&S, Vec<Vec<u8>>) -> S,
) -> Vec<Ed<S>> {
    let mut v: Vec<Ed<S>> = Vec::new();
    let l = msgs.len();
    for i in 0..l {
        for bit in flip_positions(msgs[i].len(), 4) {
            v.push(ed(format!("{tag}[{i}] flip bit {bit}"), &format!("{tag}-bitflip"), false, move |s: &S| {
                let mut m = get(s).clone();
                if i >= m.len() || bit / 8 >= m[i].len() { return None; }
                m[i] = flip(&m[i], bit);
                Some(set(s, m))
            }));
        }
        for (li, lt) in letters.iter().enumerate() {
            let lt = lt.clone();
            v.push(ed(format!("{tag}[{i}] := letter{li}"), &format!("{tag}-replace"), true, move |s: &S| {
                let mut m = get(s).clone();
                if i >= m.len() || m[i] == lt { return None; }
                m[i] = lt.clone();
                Some(set(s, m))
            }));
        }
        v.push(ed(format!("{tag} delete [{i}]"), &format!("{tag}-delete"), true, move |s: &S| {
            let mut m = get(s).clone();
            if i >= m.len() { return None; }
            m.remove(i);
            Some(set(s, m))
        }));
        v.push(ed(format!("{tag} duplicate [{i}]"), &format!("{tag}-duplicate"), true, move |s: &S| {
            let mut m = get(s).clone();
            if i >= m.len() { return None; }
            let x = m[i].clone();
            m.insert(i, x);
            Some(set(s, m))
        }));
        v.push(ed(format!("{tag}[{i}] drop last byte"), &format!("{tag}-byte-truncate"), false, move |s: &S| {
            let mut m = get(s).clone();
            if i >= m.len() || m[i].is_empty() { return None; }
            m[i].pop();
            Some(set(s, m))
        }));
        v.push(ed(format!("{tag}[{i}] append 00"), &format!("{tag}-byte-extend"), false, move |s: &S| {
            let mut m = get(s).clone();
            if i >= m.len() { return None; }
            m[i].push(0);
            Some(set(s, m))
        }));
        for b in [0x0au8, 0x20] {
            v.push(ed(format!("{tag}[{i}] append {:02x}", b), &format!("{tag}-byte-extend"), false, move |s: &S| { let mut m = get(s).clone(); if i >= m.len() { return None; } m[i].push(b); Some(set(s, m)) }));
        }
        for j in (i + 1)..l {
            v.push(ed(format!("{tag} swap [{i}]<->[{j}]"), &format!("{tag}-swap"), true, move |s: &S| {
                let mut m = get(s).clone();
                if j >= m.len() || m[i] == m[j] { return None; }
                m.swap(i, j);
                Some(set(s, m))
            }));
        }
    }
    for pos in 0..=l {
        for (li, lt) in letters.iter().enumerate() {
            let lt = lt.clone();
            v.push(ed(format!("{tag} insert letter{li} at {pos}"), &format!("{tag}-insert"), true, move |s: &S| {
                let mut m = get(s).clone();
                if pos > m.len() { return None; }
                m.insert(pos, lt.clone());
                Some(set(s, m))
            }));
        }
    }
    for k in 0..l {
        v.push(ed(format!("{tag} prefix of length {k}"), &format!("{tag}-prefix"), false, move |s: &S| {
            let m = get(s).clone();
            if k >= m.len() { return None; }
            Some(set(s, m[..k].to_vec()))
        }));
    }
    v
}

/// Per-position edits for long lists (one replace, one bit flip, one delete and one adjacent swap at EVERY position,
/// inserts at the ends and in the middle): the alphabet that finds a position-dependent slip (a skipped index, a
/// window boundary) without the quadratic blow-up of the full alphabet.
pub fn message_list_edits_wide<S: Clone + 'static>(len: usize, letter: Vec<u8>, tag: &str, get: fn(&S) -> &Vec<Vec<u8>>, set: fn(&S, Vec<Vec<u8>>) -> S) -> Vec<Ed<S>> {
    let mut v: Vec<Ed<S>> = Vec::new();
    for i in 0..len {
        let lt = letter.clone();
        v.push(ed(format!("{tag}[{i}] := letter"), &format!("{tag}-replace"), false, move |s: &S| { let mut m = get(s).clone(); if i >= m.len() || m[i] == lt { return None; } m[i] = lt.clone(); Some(set(s, m)) }));
        v.push(ed(format!("{tag}[{i}] flip bit 0"), &format!("{tag}-bitflip"), false, move |s: &S| { let mut m = get(s).clone(); if i >= m.len() || m[i].is_empty() { return None; } m[i] = flip(&m[i], 0); Some(set(s, m)) }));
        v.push(ed(format!("{tag} delete [{i}]"), &format!("{tag}-delete"), false, move |s: &S| { let mut m = get(s).clone(); if i >= m.len() { return None; } m.remove(i); Some(set(s, m)) }));
        v.push(ed(format!("{tag} swap [{i}]<->[{}]", i + 1), &format!("{tag}-swap"), false, move |s: &S| { let mut m = get(s).clone(); if i + 1 >= m.len() || m[i] == m[i + 1] { return None; } m.swap(i, i + 1); Some(set(s, m)) }));
    }
    for pos in [0, len / 2, len] {
        let lt = letter.clone();
        v.push(ed(format!("{tag} insert letter at {pos}"), &format!("{tag}-insert"), false, move |s: &S| { let mut m = get(s).clone(); if pos > m.len() { return None; } m.insert(pos, lt.clone()); Some(set(s, m)) }));
    }
    v
}

pub fn header_edits<S: Clone + 'static>(seed: u64, tag: &str, get: fn(&S) -> &Vec<u8>, set: fn(&S, Vec<u8>) -> S) -> Vec<Ed<S>> {
    let mut v: Vec<Ed<S>> = Vec::new();
    for (hn, h) in hdr_alphabet(seed) {
        let hv = h.clone().unwrap_or_default();
        v.push(ed(format!("{tag} := {hn}"), &format!("{tag}-replace"), hn == "none" || hn == "16B" || hn == "1B", move |s: &S| {
            if *get(s) == hv { return None; }
            Some(set(s, hv.clone()))
        }));
    }
    v.push(ed(format!("{tag} flip first bit"), &format!("{tag}-bitflip"), false, move |s: &S| {
        let h = get(s);
        if h.is_empty() { return None; }
        Some(set(s, flip(h, 0)))
    }));
    v.push(ed(format!("{tag} flip last bit"), &format!("{tag}-bitflip"), false, move |s: &S| {
        let h = get(s);
        if h.is_empty() { return None; }
        Some(set(s, flip(h, h.len() * 8 - 1)))
    }));
    v.push(ed(format!("{tag} append 00"), &format!("{tag}-extend"), true, move |s: &S| {
        let mut h = get(s).clone();
        h.push(0);
        Some(set(s, h))
    }));
    v.push(ed(format!("{tag} drop last byte"), &format!("{tag}-truncate"), false, move |s: &S| {
        let mut h = get(s).clone();
        h.pop()?;
        Some(set(s, h))
    }));
    // octets a careless normalisation would strip or fold: white space, NUL, 0xff, at either end
    for b in [0x09u8, 0x0a, 0x0d, 0x20, 0xff] {
        v.push(ed(format!("{tag} append {:02x}", b), &format!("{tag}-extend"), false, move |s: &S| { let mut h = get(s).clone(); h.push(b); Some(set(s, h)) }));
    }
    for b in [0x00u8, 0x20] {
        v.push(ed(format!("{tag} prepend {:02x}", b), &format!("{tag}-extend"), false, move |s: &S| { let mut h = get(s).clone(); h.insert(0, b); Some(set(s, h)) }));
    }
    v
}

fn edits_for(env: &Env, base: &St) -> Vec<Ed<St>> {
    let seed = env.ctx.seed;
    let letters: Vec<Vec<u8>> = vec![vec![], vec![0x01], mccore::fill(seed, "c02-letter", 32)];
    let wide = base.msgs.len() > 16;
    let mut v = if wide { message_list_edits_wide::<St>(base.msgs.len(), letters[2].clone(), "msg", |s| &s.msgs, |s, m| St { msgs: m, ..s.clone() }) } else { message_list_edits::<St>(&base.msgs, &letters, "msg", |s| &s.msgs, |s, m| St { msgs: m, ..s.clone() }) };
    v.extend(header_edits::<St>(seed, "header", |s| &s.header, |s, h| St { header: h, ..s.clone() }));
    // public keys: every other key of both suites
    for s2 in suites() {
        for k in keys(s2) {
            let pk = k.pk.clone();
            v.push(ed(format!("pk := {}/{}", s2.name(), k.id), "pk-replace", k.id != "k2", move |s: &St| {
                if s.pk == pk { return None; }
                Some(St { pk: pk.clone(), ..s.clone() })
            }));
        }
    }
    // all 640 single-bit flips of the signature
    for bit in (0..640).step_by(if wide { 16 } else { 1 }) {
        let cls = if bit < 384 { "sigflip-A" } else { "sigflip-e" };
        v.push(ed(format!("sig flip bit {bit}"), cls, false, move |s: &St| Some(St { sig: flip(&s.sig, bit), ..s.clone() })));
    }
    v.push(ed("verify under the other ciphersuite".into(), "cross-suite", true, |s: &St| Some(St { suite: s.suite.other(), ..s.clone() })));
    v.push(ed("verify through the other interface".into(), "cross-interface", true, |s: &St| {
        Some(St { iface: if s.iface == Iface::Plain { Iface::Blind } else { Iface::Plain }, ..s.clone() })
    }));
    v.push(ed("call form: header None<->Some(empty)".into(), "callform-header", true, |s: &St| {
        if !s.header.is_empty() { return None; }
        Some(St { hdr_none: !s.hdr_none, ..s.clone() })
    }));
    v.push(ed("call form: messages None<->Some(empty)".into(), "callform-messages", true, |s: &St| {
        if !s.msgs.is_empty() { return None; }
        Some(St { msgs_none: !s.msgs_none, ..s.clone() })
    }));
    v
}

pub fn run(env: &Env) {
    let seed = env.ctx.seed;
    let bound = if env.thorough() { 2 } else { 1 };
    // bases
    let l = msg_letters(seed);
    let mut lists: Vec<(String, Vec<Vec<u8>>)> = vec![
        ("L0".into(), vec![]),
        ("L1".into(), vec![l[2].clone()]),
        ("L1-empty".into(), vec![vec![]]),
        ("L2".into(), vec![l[1].clone(), l[3].clone()]),
        ("L3".into(), vec![l[3].clone(), vec![], l[2].clone()]),
        ("L4".into(), distinct_msgs(seed, "c02", 4)),
    ];
    if env.thorough() {
        lists.push(("L3-long".into(), vec![l[4].clone(), l[5].clone(), l[6].clone()]));
        lists.push(("L5".into(), distinct_msgs(seed, "c02b", 5)));
        lists.push(("L8".into(), distinct_msgs(seed, "c02c", 8)));
    }
    // long lists: per-position edits at EVERY position (window / batch boundaries at 32, 64, 65, ...)
    let wide_ls: Vec<usize> = if env.thorough() { vec![33, 66, 130, 257] } else { vec![33, 66] };
    for n in &wide_ls { lists.push((format!("W{}", n), distinct_msgs(seed, "c02w", *n))); }
    // inputs longer than 2^16 octets: an edit in the tail (beyond any 16-bit length) must still be noticed
    lists.push(("L2-70000B".into(), vec![mccore::fill(seed, "c02-long-msg", 70000), l[2].clone()]));
    let hdrs: Vec<(String, Option<Vec<u8>>)> = if env.thorough() { hdr_alphabet(seed).into_iter().filter(|h| h.0 != "65536B").collect() } else { hdr_alphabet(seed).into_iter().filter(|h| h.0 == "none" || h.0 == "16B").collect() };
    struct Root { id: String, base: St, kid: &'static str, sk: Vec<u8>, hname: String, lname: String }
    let mut roots = Vec::new();
    for s in suites() {
        for k in keys(s) {
            if k.id == "k2" && !env.thorough() { continue; }
            for (hn, h) in &hdrs {
                for (ln, m) in &lists {
                    for iface in [Iface::Plain, Iface::Blind] {
                        if iface == Iface::Blind && !(k.id == "k0" && (ln == "L0" || ln == "L2")) { continue; }
                        if ln.starts_with('W') && !(k.id == "k0" && hn == "16B") { continue; }
                        if ln == "L2-70000B" && !(k.id == "k0" && hn == "16B" && iface == Iface::Plain) { continue; }
                        let id = format!("{}/{:?}/{}/{}/{}", s.name(), iface, k.id, hn, ln);
                        roots.push(Root { id, base: St { suite: s, iface, pk: k.pk.clone(), sig: vec![], header: h.clone().unwrap_or_default(), msgs: m.clone(), hdr_none: h.is_none(), msgs_none: false }, kid: k.id, sk: k.sk.clone(), hname: hn.clone(), lname: ln.clone() });
                    }
                }
            }
        }
    }
    for s in suites() { let k = key(s, "k0"); roots.push(Root { id: format!("{}/Plain/k0/70000B/L2-70000B", s.name()), base: St { suite: s, iface: Iface::Plain, pk: k.pk.clone(), sig: vec![], header: mccore::fill(seed, "c02-long-hdr", 70000), msgs: lists.iter().find(|x| x.0 == "L2-70000B").unwrap().1.clone(), hdr_none: false, msgs_none: false }, kid: k.id, sk: k.sk.clone(), hname: "70000B".into(), lname: "L2-70000B".into() }); }
    env.ctx.set_rule("one root per suite with a 70000-octet header and a 70000-octet message (first / last bit flips, truncation, extension in the tail). roots = honest signatures (plain sign, and blind_sign without commitment) over suites x keys x headers x message lists; from each root ALL single edits of the alphabet: per message bit flips / replace by each letter / delete / duplicate / byte truncate / byte extend / swap distinct / insert each letter at each position / every proper prefix; header := every other alphabet element, bit flips, extend, truncate; pk := every other key of both suites; all 640 signature bit flips; other suite; other interface; None<->empty call forms. Thorough: all ordered pairs of structural edits (bound 2). Long lists (L = 33, 66; thorough + 130, 257): replace / bit flip / delete / adjacent swap at EVERY position. The honest base is judged again after all edits (stale hidden state). A state is the edited (suite, iface, pk, sig, header, messages, call form); it is non-trivial when the real verifier ran on it and its verdict was compared with the semantic and the reference verdict.");
    env.ctx.extra("deviation_bound_completed", json!(bound));
    crate::hist::explore_families(env, &['V'], "verification histories");
    par_for(&roots, |_, r| {
        if !env.want(&r.id) || env.ctx.out_of_time() { return; }
        let zk = z(r.base.suite);
        let h: Option<&[u8]> = if r.base.hdr_none { None } else { Some(&r.base.header) };
        let sig = match r.base.iface {
            Iface::Plain => zk.sign(&r.sk, &r.base.pk, h, Some(&r.base.msgs)),
            Iface::Blind => zk.blind_sign(&r.sk, &r.base.pk, None, h, Some(&r.base.msgs)),
        };
        env.ctx.step();
        let det0 = json!({"suite": r.base.suite.name(), "iface": format!("{:?}", r.base.iface), "key": r.kid, "header": r.hname, "list": r.lname, "messages": hexv(&r.base.msgs)});
        let sig = match sig { O::Ok(s) => s, other => { env.ctx.violation("C02:base-sign-failed", &format!("honest signing failed: {}", other.describe()), env.case(&r.id, det0)); return; } };
        let base = St { sig, ..r.base.clone() };
        let edits = edits_for(env, &base);
        let base_ref_ok = std::cell::Cell::new(true);
        let (_st, tr) = explore(&base, &edits, bound, &|s| s.key(), &mut |v| {
            let sem = v.state.statement_eq(&base);
            env.ctx.state(&[r.id.as_bytes(), &v.state.key()]);
            let got = v.state.verify_impl();
            let cls = if v.classes.is_empty() { "honest".to_string() } else { v.classes.join("+") };
            let det = json!({"base": det0, "edits": v.path, "signature": hex::encode(&v.state.sig), "semantic_accept": sem});
            expect(env, &r.id, &format!("verify after [{}]", v.path.join("; ")), &got, sem, &format!("binding:{}", cls), det);
            let skip_ref = base.msgs.len() > 16 && !v.path.is_empty() && !got.is_ok() && !env.thorough();
            let rf = if skip_ref { if sem { Ok(()) } else { Err("skipped".to_string()) } } else { v.state.verify_ref() };
            if v.path.is_empty() && rf.is_err() {
                // the honest base itself (made by the implementation) is not accepted by the reference: a finding about the
                // implementation, and the reference's verdicts on edits of that base say nothing from here on
                base_ref_ok.set(false);
                env.ctx.violation("C02:base-artefact:reference-rejects", &format!("the implementation's honest signature is rejected by the reference: {:?}", rf), env.case(&r.id, det0.clone()));
            } else if base_ref_ok.get() && rf.is_ok() != sem {
                env.machinery(&format!("C02 reference verdict {:?} != semantic {} at {} [{}]", rf, sem, r.id, v.path.join("; ")));
            }
            env.ctx.class(&format!("{}:{}", if sem { "accept" } else { "reject" }, v.classes.first().copied().unwrap_or("honest")));
            env.ctx.trace();
            if v.path.len() == 1 && v.path[0].starts_with("msg insert") { env.ctx.sample(json!({"root": r.id, "edits": v.path, "verdict": got.kind()})); }
        });
        env.ctx.add_extra("edit_transitions", tr);
    });
}
