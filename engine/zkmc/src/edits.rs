//! Deviation-bounded exploration of adversarial edits around an honest statement.
//! Level 1: every edit of the alphabet. Level 2 (bound 2): every ordered pair of *structural* edits.
//! States are de-duplicated on the canonical key of the edited statement, so flip-and-flip-back or two paths to the
//! same statement are judged once.
use std::collections::HashSet;

pub struct Ed<S> {
    /// full name, with position (goes into the replay file)
    pub name: String,
    /// class without position (goes into the violation signature)
    pub class: String,
    /// structural edits are the ones composed pairwise at bound 2
    pub structural: bool,
    pub f: Box<dyn Fn(&S) -> Option<S> + Send + Sync>,
}

pub fn ed<S>(name: String, class: &str, structural: bool, f: impl Fn(&S) -> Option<S> + Send + Sync + 'static) -> Ed<S> {
    Ed { name, class: class.to_string(), structural, f: Box::new(f) }
}

pub struct Visit<'a, S> {
    pub state: &'a S,
    pub path: Vec<&'a str>,
    pub classes: Vec<&'a str>,
}

/// Returns (states visited, transitions taken).
pub fn explore<S: Clone>(
    base: &S,
    edits: &[Ed<S>],
    bound: usize,
    key: &dyn Fn(&S) -> Vec<u8>,
    visit: &mut dyn FnMut(Visit<S>),
) -> (u64, u64) {
    let mut seen: HashSet<Vec<u8>> = HashSet::new();
    let mut transitions = 0u64;
    seen.insert(key(base));
    visit(Visit { state: base, path: vec![], classes: vec![] });
    let mut level1: Vec<(usize, S)> = Vec::new();
    for (i, e) in edits.iter().enumerate() {
        if let Some(s) = (e.f)(base) {
            transitions += 1;
            if seen.insert(key(&s)) {
                visit(Visit { state: &s, path: vec![&e.name], classes: vec![&e.class] });
            }
            if e.structural {
                level1.push((i, s));
            }
        }
    }
    if bound >= 2 {
        visit(Visit { state: base, path: vec!["(honest base judged again after the single edits)"], classes: vec!["revisit-honest"] });
        for (i, s1) in &level1 {
            for e2 in edits.iter().filter(|e| e.structural) {
                if let Some(s2) = (e2.f)(s1) {
                    transitions += 1;
                    if seen.insert(key(&s2)) {
                        visit(Visit { state: &s2, path: vec![&edits[*i].name, &e2.name], classes: vec![&edits[*i].class, &e2.class] });
                    }
                }
            }
        }
    }
    // hidden state left behind by the edited calls (stale caches, memos) shows when the honest base is judged again
    visit(Visit { state: base, path: vec!["(honest base judged again after all edits)"], classes: vec!["revisit-honest"] });
    (seen.len() as u64, transitions)
}

/// Bit positions to flip inside a byte string: all bits when short, otherwise first, middle and last byte.
pub fn flip_positions(len: usize, all_upto: usize) -> Vec<usize> {
    if len == 0 {
        return vec![];
    }
    if len <= all_upto {
        return (0..len * 8).collect();
    }
    let mut v: Vec<usize> = Vec::new();
    for b in [0, len / 2, len - 1] {
        for k in 0..8 {
            v.push(b * 8 + k);
        }
    }
    v.sort();
    v.dedup();
    v
}
