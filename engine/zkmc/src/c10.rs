//! C10 — every deterministic BBS operation matches the drafts for all inputs (byte-for-byte against refbbs over
//! exhaustive shape grids), decisions equal the reference's decisions, KeyGen refusal rules, and history independence:
//! ALL call sequences of length <= 3 over a 14-call alphabet must give, at every step, the value the same call gives
//! from the initial state (fresh process). Threads: 16-way concurrent battery (sampled schedules, labelled so) plus a
//! census of synchronisation primitives in the source.
#![allow(non_snake_case)]
use crate::common::*;
use mccore::{fill, par_for, tuples, O};
use refbbs::Suite;
use serde_json::json;

fn cmp_bytes<T: AsRef<[u8]>>(env: &Env, root: &str, what: &str, cls: &str, got: &O<T>, want: &Result<Vec<u8>, String>, det: serde_json::Value) {
    env.ctx.step();
    match (got, want) {
        (O::Ok(g), Ok(w)) if g.as_ref() == &w[..] => env.ctx.class(&format!("{}:equal", cls)),
        (O::Err(_), Err(_)) => env.ctx.class(&format!("{}:both-refuse", cls)),
        (O::Panic(p), _) => env.ctx.violation(&format!("C10:{}:panic", cls), &format!("{}: panic {}", what, p), env.case(root, det)),
        (O::Ok(g), Ok(w)) => env.ctx.violation(&format!("C10:{}:bytes-differ", cls), &format!("{}: implementation {} != reference {}", what, mccore::hexs(g.as_ref()), mccore::hexs(w)), env.case(root, det)),
        (O::Ok(_), Err(e)) => env.ctx.violation(&format!("C10:{}:accepts-where-reference-refuses", cls), &format!("{}: implementation Ok, reference refuses ({})", what, e), env.case(root, det)),
        (O::Err(e), Ok(_)) => env.ctx.violation(&format!("C10:{}:refuses-where-reference-accepts", cls), &format!("{}: implementation refuses ({}), reference Ok", what, e), env.case(root, det)),
    }
    env.ctx.trace();
}

pub fn api_ids(s: Suite, seed: u64) -> Vec<(String, Option<Vec<u8>>)> {
    vec![
        ("none".into(), None), ("empty".into(), Some(vec![])), ("API_ID".into(), Some(s.api_id())), ("API_ID_BLIND".into(), Some(s.api_id_blind())),
        ("BLIND_+API_ID_BLIND".into(), Some(refbbs::cat(&[b"BLIND_", &s.api_id_blind()]))), ("1B".into(), Some(vec![0x41])), ("200B".into(), Some(fill(seed, "api200", 200))),
    ]
}

// ------------------------------------------------------------------------------------------------------------------
// history independence uses the collision alphabet of hist.rs
pub use crate::hist::call;
pub const NCALLS: usize = crate::hist::CALLS.len();
pub fn call_name(i: usize) -> &'static str { crate::hist::CALLS[i].0 }

pub fn child_main(args: &[String], out: &mccore::Out) {
    let calls: Vec<usize> = args.get(0).map(|x| x.split(',').filter_map(|t| t.parse().ok()).collect()).unwrap_or_default();
    let res: Vec<String> = calls.iter().map(|&c| call(c)).collect();
    out.line(&serde_json::to_string(&res).unwrap());
}

fn census() -> serde_json::Value {
    // textual census of shared-state / synchronisation constructs in the subject's source (recorded, never a verdict)
    let pats = ["static mut", "thread_local!", "lazy_static", "OnceCell", "OnceLock", "Once::", "Mutex", "RwLock", "Atomic", "unsafe ", "Condvar", "mpsc", "static ref"];
    let mut hits = serde_json::Map::new();
    fn walk(d: &std::path::Path, f: &mut dyn FnMut(&std::path::Path)) { if let Ok(rd) = std::fs::read_dir(d) { for e in rd.flatten() { let p = e.path(); if p.is_dir() { walk(&p, f); } else if p.extension().map(|x| x == "rs").unwrap_or(false) { f(&p); } } } }
    let mut files = 0;
    walk(&std::path::Path::new(&mccore::repo_root()).join("src"), &mut |p| { files += 1; if let Ok(t) = std::fs::read_to_string(p) { for pat in pats { let n = t.matches(pat).count(); if n > 0 { let e = hits.entry(pat.to_string()).or_insert(json!(0)); *e = json!(e.as_u64().unwrap() + n as u64); } } } });
    json!({"files": files, "hits": hits})
}

pub fn run(env: &Env) {
    let seed = env.ctx.seed;
    env.ctx.set_rule("byte-for-byte against the independent reference: KeyGen over |ikm| in {0,31,32,33,64,255,256} x key_info in {None,0,1,255,256,65535,65536 B} x key_dst in {None,1,255,256 B} (incl. the three refusal rules) + SkToPk; Generators::create for EVERY count 0..=200 (thorough 0..=1100) x 7 api_ids; hash_to_scalar for EVERY message length 0..=300 x dst length {1,16,254,255,256}; messages_to_scalars over the message letters x api_ids; sign over a shape grid; blind_sign over (L,M) in [0..=2]^2; update_signature against the reference formula; accept/reject decisions on honest and mutated artefacts; history independence: ALL call sequences of length <= 2 over the 45-call COLLISION alphabet (calls that differ in exactly one of header / message count / message / key / suite / api_id / committed count / L / ph / disclosure) and ALL length-3 sequences within a family (quick; thorough: all 45^3) - each step's result must equal the result of that call from the initial state (fresh process); length <= 2 histories additionally each in its own fresh process; 16-thread concurrent battery (SAMPLED schedules). State = one (operation, input shape) or one history prefix; non-trivial = implementation output compared with an independently computed value.");
    env.ctx.assume("empty domain-separation tags are outside RFC 9380's domain (tags MUST have non-zero length) and are not judged");
    env.ctx.extra("sync_census", census());
    env.ctx.extra("schedule_claim", json!("zkryptium contains no synchronisation operation (see sync_census), so interleavings differ only in thread identity; all call orders up to length 3 are enumerated; the 16-thread run samples schedules"));
    #[derive(Clone)]
    enum Job { Keygen(Suite), Gens(Suite, usize), H2s(Suite), Maps(Suite), Sign(Suite), Blind(Suite), Update(Suite), Decisions(Suite), History(usize), HistoryFresh(usize), Threads }
    let mut jobs: Vec<(String, Job)> = Vec::new();
    for s in suites() {
        jobs.push((format!("{}/keygen", s.name()), Job::Keygen(s)));
        for a in 0..7 { jobs.push((format!("{}/generators/api{}", s.name(), a), Job::Gens(s, a))); }
        jobs.push((format!("{}/hash_to_scalar", s.name()), Job::H2s(s)));
        jobs.push((format!("{}/messages_to_scalars", s.name()), Job::Maps(s)));
        jobs.push((format!("{}/sign", s.name()), Job::Sign(s)));
        jobs.push((format!("{}/blind_sign", s.name()), Job::Blind(s)));
        jobs.push((format!("{}/update_signature", s.name()), Job::Update(s)));
        jobs.push((format!("{}/decisions", s.name()), Job::Decisions(s)));
    }
    for first in 0..NCALLS { jobs.push((format!("history/first-call-{}", first), Job::History(first))); }
    for first in 0..NCALLS { jobs.push((format!("history/fresh-process/first-call-{}", first), Job::HistoryFresh(first))); }
    jobs.push(("threads16".into(), Job::Threads));
    // baseline: every call from the initial state, each in its own fresh process
    let exe = std::env::current_exe().unwrap();
    let fresh = |calls: &[usize]| -> Option<Vec<String>> {
        let arg = calls.iter().map(|c| c.to_string()).collect::<Vec<_>>().join(",");
        let o = std::process::Command::new(&exe).args(["c10-child", &arg]).output().ok()?;
        serde_json::from_slice(&o.stdout).ok()
    };
    let baseline: Vec<String> = (0..NCALLS).map(|c| fresh(&[c]).map(|v| v[0].clone()).unwrap_or_else(|| "child failed".into())).collect();
    if baseline.iter().any(|b| b == "child failed") { env.machinery("C10 baseline child process failed"); return; }
    // the initial-state value of every verdict call is also pinned by the reference (the fixed inputs were made by it)
    for c in 0..NCALLS { if let Some(e) = crate::hist::expected(c) { env.ctx.step(); if baseline[c] != e { env.ctx.violation(&format!("C10:initial-state:{}", call_name(c)), &format!("from the initial state {} returned {} (the reference statement says {})", call_name(c), baseline[c], e), env.case("history/baseline", json!({"call": call_name(c)}))); } } }
    let nmax = if env.thorough() { 1100 } else { 200 };
    par_for(&jobs, |_, (id, job)| {
        if !env.want(id) || env.ctx.out_of_time() { return; }
        match job.clone() {
            Job::Keygen(s) => {
                let zk = z(s);
                let ikms = [0usize, 31, 32, 33, 64, 255, 256];
                let infos: Vec<Option<usize>> = vec![None, Some(0), Some(1), Some(255), Some(256), Some(65535), Some(65536)];
                let dsts: Vec<Option<usize>> = vec![None, Some(1), Some(255), Some(256), Some(0)];
                for &il in &ikms { for inf in &infos { for d in &dsts {
                    let ikm = fill(seed, "ikm", il); let info = inf.map(|n| fill(seed, "info", n)); let dst = d.map(|n| fill(seed, "dst", n));
                    env.ctx.state(&[id.as_bytes(), format!("{}/{:?}/{:?}", il, inf, d).as_bytes()]);
                    let got = zk.keygen(&ikm, info.as_deref(), dst.as_deref());
                    let det = json!({"suite": s.name(), "ikm_len": il, "key_info_len": inf, "key_dst_len": d});
                    if *d == Some(0) { env.ctx.step(); if let O::Panic(p) = &got { env.ctx.violation("C10:keygen:empty-dst:panic", p, env.case(id, det)); } env.ctx.class("keygen:empty-dst (crash-only)"); env.ctx.trace(); continue; }
                    let want = refbbs::keygen(s, &ikm, info.as_deref().unwrap_or(b""), dst.as_deref()).map(|sk| [refbbs::sc_bytes(&sk).to_vec(), refbbs::sk_to_pk(&sk).to_vec()].concat());
                    // explicit refusal rules of the property
                    let must_refuse = il < 32 || inf.unwrap_or(0) > 65535 || d.unwrap_or(1) > 255;
                    if must_refuse != want.is_err() { env.machinery(&format!("reference keygen refusal rule mismatch at {}", det)); }
                    cmp_bytes(env, id, &format!("KeyGen+SkToPk {}", det), "keygen", &got.map(|(a, b)| [a, b].concat()), &want, det);
                } } }
                for k in keys(s) { let got = zk.sk_to_pk(&k.sk); env.ctx.state(&[id.as_bytes(), k.id.as_bytes()]); cmp_bytes(env, id, "SkToPk", "sk_to_pk", &got, &Ok(k.pk.clone()), json!({"key": k.id})); }
            }
            Job::Gens(s, a) => {
                let (an, api) = api_ids(s, seed)[a].clone();
                let refg: Vec<u8> = refbbs::create_generators(s, nmax, api.as_deref().unwrap_or(b"")).iter().flat_map(|g| refbbs::g1_bytes(g)).collect();
                let zk = z(s);
                for n in 0..=nmax {
                    env.ctx.state(&[id.as_bytes(), &(n as u32).to_be_bytes()]);
                    let got = zk.generators(n, api.as_deref()).map(|g| g.concat());
                    cmp_bytes(env, id, &format!("Generators::create({}, api_id={})", n, an), "generators", &got, &Ok(refg[..48 * n].to_vec()), json!({"suite": s.name(), "count": n, "api_id": an}));
                }
                if zk.p1().to_vec() != refbbs::g1_bytes(&s.p1()).to_vec() { env.ctx.violation("C10:generators:P1", "P1 differs from the ciphersuite constant", env.case(id, json!({}))); }
            }
            Job::H2s(s) => {
                let zk = z(s);
                for ml in 0..=300usize { for dl in [1usize, 16, 254, 255, 256] {
                    let (m, d) = (fill(seed, "h2s-m", ml), fill(seed, "h2s-d", dl));
                    env.ctx.state(&[id.as_bytes(), format!("{}/{}", ml, dl).as_bytes()]);
                    cmp_bytes(env, id, &format!("hash_to_scalar(|msg|={}, |dst|={})", ml, dl), "hash_to_scalar", &zk.hash_to_scalar(&m, &d), &refbbs::hash_to_scalar(s, &m, &d).map(|x| refbbs::sc_bytes(&x).to_vec()), json!({"suite": s.name(), "msg_len": ml, "dst_len": dl}));
                } }
            }
            Job::Maps(s) => {
                let zk = z(s);
                for (an, api) in api_ids(s, seed) { let api = api.unwrap_or_default(); for (i, m) in msg_letters(seed).iter().enumerate() {
                    env.ctx.state(&[id.as_bytes(), an.as_bytes(), &[i as u8]]);
                    let want = refbbs::messages_to_scalars(s, &[m.clone()], &api).map(|v| refbbs::sc_bytes(&v[0]).to_vec());
                    cmp_bytes(env, id, &format!("map_message_to_scalar_as_hash(letter{}, api_id={})", i, an), "map_message", &zk.map_message(m, &api), &want, json!({"suite": s.name(), "letter": i, "api_id": an}));
                    cmp_bytes(env, id, &format!("messages_to_scalar([letter{}; 2], api_id={})", i, an), "messages_to_scalars", &zk.messages_to_scalars(&[m.clone(), m.clone()], &api).map(|v| v.concat()), &want.map(|w| [w.clone(), w].concat()), json!({"suite": s.name(), "letter": i, "api_id": an}));
                } }
            }
            Job::Sign(s) => {
                let zk = z(s);
                for k in keys(s) { for (hn, h) in hdr_alphabet(seed) { for l in [0usize, 1, 2, 5, 17, 255, 256] {
                    if l >= 255 && (k.id != "k0" || hn != "16B") { continue; }
                    let msgs = distinct_msgs(seed, "c10s", l);
                    env.ctx.state(&[id.as_bytes(), k.id.as_bytes(), hn.as_bytes(), &(l as u32).to_be_bytes()]);
                    let sk = refbbs::octets_to_scalar_strict(&k.sk).unwrap();
                    let want = refbbs::sign(s, &sk, &k.pk.clone().try_into().unwrap(), hb(&h), &msgs).map(|x| x.to_vec());
                    cmp_bytes(env, id, &format!("sign key={} header={} L={}", k.id, hn, l), "sign", &zk.sign(&k.sk, &k.pk, oh(&h), Some(&msgs)), &want, json!({"suite": s.name(), "key": k.id, "header": hn, "L": l}));
                } } }
            }
            Job::Blind(s) => {
                let zk = z(s);
                let k = key(s, "k0");
                let sk = refbbs::octets_to_scalar_strict(&k.sk).unwrap();
                for l in 0..=2usize { for m in 0..=2usize { for (hn, h) in hdr_small(seed) { for commit in [false, true] {
                    if !commit && m > 0 { continue; }
                    let msgs = distinct_msgs(seed, "c10b", l); let cms = distinct_msgs(seed, "c10c", m);
                    env.ctx.state(&[id.as_bytes(), format!("{}/{}/{}/{}", l, m, hn, commit).as_bytes()]);
                    // commitment made by the REFERENCE (deterministic scalars): the implementation must accept it and produce the reference's bytes
                    let rnd: Vec<_> = (0..m + 2).map(|i| refbbs::random_scalar_from(b"c10", id.as_bytes(), i as u64)).collect();
                    let cwp = if commit { refbbs::commit(s, &cms, &rnd).unwrap().0 } else { vec![] };
                    let want = refbbs::blind_sign(s, &sk, &k.pk.clone().try_into().unwrap(), &cwp, hb(&h), &msgs).map(|x| x.to_vec());
                    cmp_bytes(env, id, &format!("blind_sign L={} M={} header={} commit={}", l, m, hn, commit), "blind_sign", &zk.blind_sign(&k.sk, &k.pk, if commit { Some(&cwp) } else { None }, oh(&h), Some(&msgs)), &want, json!({"suite": s.name(), "L": l, "M": m, "header": hn, "commitment": commit}));
                } } } }
            }
            Job::Update(s) => {
                let zk = z(s);
                let k = key(s, "k1");
                let sk = refbbs::octets_to_scalar_strict(&k.sk).unwrap();
                for l in 1..=4usize { for i in 0..l { for newv in [vec![], vec![0x01], fill(seed, "c10u", 300)] {
                    let msgs = distinct_msgs(seed, "c10u", l);
                    let sig = refbbs::sign(s, &sk, &k.pk.clone().try_into().unwrap(), b"hdr", &msgs).unwrap();
                    env.ctx.state(&[id.as_bytes(), format!("{}/{}/{}", l, i, newv.len()).as_bytes()]);
                    let want = refbbs::update_signature(s, &sk, &sig, &msgs[i], &newv, i, l).map(|x| x.to_vec());
                    cmp_bytes(env, id, &format!("update_signature L={} i={} |new|={}", l, i, newv.len()), "update_signature", &zk.update_signature(&k.sk, &sig, &msgs[i], &newv, i, l), &want, json!({"suite": s.name(), "L": l, "i": i, "new_len": newv.len()}));
                } } }
            }
            Job::Decisions(s) => {
                // a fixed structural subset of the C02/C04/C06 decision comparisons, so that C10 stands alone
                let zk = z(s);
                let k = key(s, "k0"); let k1 = key(s, "k1");
                let msgs = distinct_msgs(seed, "c10d", 3);
                let sk = refbbs::octets_to_scalar_strict(&k.sk).unwrap();
                let sig = refbbs::sign(s, &sk, &k.pk.clone().try_into().unwrap(), b"hdr", &msgs).unwrap().to_vec();
                let mut cases: Vec<(String, Vec<u8>, Vec<u8>, Vec<u8>, Vec<Vec<u8>>)> = vec![("honest".into(), k.pk.clone(), sig.clone(), b"hdr".to_vec(), msgs.clone())];
                cases.push(("other key".into(), k1.pk.clone(), sig.clone(), b"hdr".to_vec(), msgs.clone()));
                cases.push(("other header".into(), k.pk.clone(), sig.clone(), b"hdR".to_vec(), msgs.clone()));
                cases.push(("empty header".into(), k.pk.clone(), sig.clone(), vec![], msgs.clone()));
                for i in 0..3 { let mut m = msgs.clone(); m.remove(i); cases.push((format!("message {} removed", i), k.pk.clone(), sig.clone(), b"hdr".to_vec(), m)); }
                for i in 0..2 { let mut m = msgs.clone(); m.swap(i, i + 1); cases.push((format!("messages {} and {} swapped", i, i + 1), k.pk.clone(), sig.clone(), b"hdr".to_vec(), m)); }
                for bit in (0..640).step_by(7) { cases.push((format!("signature bit {} flipped", bit), k.pk.clone(), flip(&sig, bit), b"hdr".to_vec(), msgs.clone())); }
                for (name, pk, sg, h, m) in cases {
                    env.ctx.state(&[id.as_bytes(), name.as_bytes()]);
                    let got = zk.verify(&pk, &sg, Some(&h), Some(&m)); let want = refbbs::verify(s, &pk, &sg, &h, &m);
                    env.ctx.step();
                    if got.is_panic() || got.is_ok() != want.is_ok() { env.ctx.violation("C10:decision:verify", &format!("verify [{}]: implementation {} reference {:?}", name, got.describe(), want), env.case(id, json!({"suite": s.name(), "case": name}))); }
                    env.ctx.class(&format!("decision:verify:{}", if want.is_ok() { "accept" } else { "reject" })); env.ctx.trace();
                }
                // proofs: honest and mutated, for every disclosure set of L = 3
                for d in mccore::subsets(3) {
                    let dm: Vec<Vec<u8>> = d.iter().map(|&i| msgs[i].clone()).collect();
                    let p = match zk.proof_gen(&k.pk, &sig, Some(b"hdr"), Some(b"ph"), Some(&msgs), Some(&d)) { O::Ok(p) => p, o => { env.ctx.violation("C10:decision:proof_gen", &o.describe(), env.case(id, json!({"D": d}))); continue; } };
                    let mut pc: Vec<(String, Vec<u8>, Vec<u8>, Vec<u8>, Vec<Vec<u8>>, Vec<usize>)> = vec![("honest".into(), p.clone(), b"hdr".to_vec(), b"ph".to_vec(), dm.clone(), d.clone())];
                    pc.push(("other ph".into(), p.clone(), b"hdr".to_vec(), b"pH".to_vec(), dm.clone(), d.clone()));
                    pc.push(("other header".into(), p.clone(), b"hdR".to_vec(), b"ph".to_vec(), dm.clone(), d.clone()));
                    if !d.is_empty() { let mut x = dm.clone(); x[0].push(1); pc.push(("first disclosed message altered".into(), p.clone(), b"hdr".to_vec(), b"ph".to_vec(), x, d.clone())); let mut di = d.clone(); let last = di.len() - 1; di[last] += 1; pc.push(("last index + 1".into(), p.clone(), b"hdr".to_vec(), b"ph".to_vec(), dm.clone(), di)); }
                    for t in [1usize, 31, 32, 33] { let mut x = p.clone(); x.extend(vec![0u8; t]); pc.push((format!("{} trailing zero octets", t), x, b"hdr".to_vec(), b"ph".to_vec(), dm.clone(), d.clone())); }
                    for t in [1usize, 32] { pc.push((format!("truncated by {} octets", t), p[..p.len() - t].to_vec(), b"hdr".to_vec(), b"ph".to_vec(), dm.clone(), d.clone())); }
                    for bit in (0..p.len() * 8).step_by(61) { pc.push((format!("proof bit {} flipped", bit), flip(&p, bit), b"hdr".to_vec(), b"ph".to_vec(), dm.clone(), d.clone())); }
                    for (name, pp, h, ph, m, di) in pc {
                        env.ctx.state(&[id.as_bytes(), format!("{:?}", d).as_bytes(), name.as_bytes()]);
                        let got = zk.proof_verify(&k.pk, &pp, Some(&h), Some(&ph), Some(&m), Some(&di)); let want = refbbs::proof_verify(s, &k.pk, &pp, &h, &ph, &m, &di);
                        env.ctx.step();
                        if got.is_panic() || got.is_ok() != want.is_ok() { env.ctx.violation("C10:decision:proof_verify", &format!("proof_verify D={:?} [{}]: implementation {} reference {:?}", d, name, got.describe(), want), env.case(id, json!({"suite": s.name(), "D": d, "case": name}))); }
                        env.ctx.class(&format!("decision:proof_verify:{}", if want.is_ok() { "accept" } else { "reject" })); env.ctx.trace();
                    }
                }
                // commitments
                for m in 0..=2usize {
                    let cms = distinct_msgs(seed, "c10dc", m);
                    let rnd: Vec<_> = (0..m + 2).map(|i| refbbs::random_scalar_from(b"c10d", &[m as u8], i as u64)).collect();
                    let cwp = refbbs::commit(s, &cms, &rnd).unwrap().0;
                    let mut cc: Vec<(String, Vec<u8>)> = vec![("honest (made by the reference)".into(), cwp.clone())];
                    for bit in (0..cwp.len() * 8).step_by(13) { cc.push((format!("bit {} flipped", bit), flip(&cwp, bit))); }
                    for (name, c) in cc {
                        env.ctx.state(&[id.as_bytes(), b"commit", &[m as u8], name.as_bytes()]);
                        let got = zk.blind_sign(&k.sk, &k.pk, Some(&c), None, Some(&msgs)); let want = refbbs::deserialize_and_validate_commit(s, &c).map(|_| ());
                        env.ctx.step();
                        if got.is_panic() || got.is_ok() != want.is_ok() { env.ctx.violation("C10:decision:commitment", &format!("blind_sign on commitment M={} [{}]: implementation {} reference {:?}", m, name, got.describe(), want), env.case(id, json!({"suite": s.name(), "M": m, "case": name}))); }
                        env.ctx.class(&format!("decision:commitment:{}", if want.is_ok() { "accept" } else { "reject" })); env.ctx.trace();
                    }
                }
            }
            Job::History(first) => {
                // histories starting with `first`: ALL of length <= 2; length 3: all triples within one family (quick) / all triples (thorough)
                let fam = |c: usize| crate::hist::CALLS[c].1;
                let mut hists: Vec<Vec<usize>> = vec![vec![first]];
                for b in 0..NCALLS { hists.push(vec![first, b]); for c in 0..NCALLS { if env.thorough() || (fam(first) == fam(b) && fam(b) == fam(c)) { hists.push(vec![first, b, c]); } } }
                for hist in hists {
                    for (step, &c) in hist.iter().enumerate() {
                        let r = call(c);
                        env.ctx.step();
                        if step + 1 == hist.len() { env.ctx.state(&[b"history", &hist.iter().map(|&x| x as u8).collect::<Vec<u8>>()]); }
                        if r != baseline[c] {
                            env.ctx.violation(&format!("C10:history-dependence:{}", call_name(c)), &format!("after history {:?} the call {} returned a value different from the one it returns from the initial state", hist[..step].iter().map(|&x| call_name(x)).collect::<Vec<_>>(), call_name(c)), env.case(id, json!({"history": hist.iter().map(|&x| call_name(x)).collect::<Vec<_>>(), "step": step, "got": r.chars().take(120).collect::<String>(), "from_initial_state": baseline[c].chars().take(120).collect::<String>()})));
                        }
                    }
                    env.ctx.class(&format!("history:len{}", hist.len())); env.ctx.trace();
                    if hist == vec![13, 14, 16] { env.ctx.sample(json!({"history": hist.iter().map(|&x| call_name(x)).collect::<Vec<_>>()})); }
                }
            }
            Job::HistoryFresh(first) => {
                // every within-family history of length 2 (thorough: every pair), each in its own fresh process (the initial state is really initial)
                let fam = |c: usize| crate::hist::CALLS[c].1;
                for b in 0..NCALLS {
                    if !env.thorough() && fam(first) != fam(b) { continue; }
                    let h = vec![first, b];
                    env.ctx.state(&[b"history-fresh", &h.iter().map(|&x| x as u8).collect::<Vec<u8>>()]);
                    env.ctx.steps(2);
                    match fresh(&h) {
                        Some(res) => for (st, (&c, r)) in h.iter().zip(res.iter()).enumerate() { if *r != baseline[c] { env.ctx.violation(&format!("C10:history-dependence:{}", call_name(c)), &format!("fresh process, history {:?}: step {} differs from the initial-state value", h.iter().map(|&x| call_name(x)).collect::<Vec<_>>(), st), env.case(id, json!({"history": h}))); } },
                        None => env.machinery("c10 child failed"),
                    }
                    env.ctx.class("history:fresh-process:len2"); env.ctx.trace();
                }
            }
            Job::Threads => {
                let bar = std::sync::Barrier::new(16);
                std::thread::scope(|sc| { for t in 0..16usize { let bar = &bar; let baseline = &baseline; sc.spawn(move || { for round in 0..3 { bar.wait(); for j in 0..NCALLS { let c = (j * 5 + t + round) % NCALLS; let r = call(c); env.ctx.step(); if r != baseline[c] { env.ctx.violation(&format!("C10:concurrent-divergence:{}", call_name(c)), &format!("thread {} round {}: {} differs from its initial-state value", t, round, call_name(c)), env.case("threads16", json!({"thread": t, "round": round}))); } } } }); } });
                env.ctx.state(&[b"threads16"]); env.ctx.class("threads16 (sampled schedules)"); env.ctx.trace();
            }
        }
    });
}
