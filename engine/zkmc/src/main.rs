//! zkmc — bounded exhaustive exploration of the BBS / Blind-BBS properties (C01–C12) on the real zkryptium.
//!
//!   zkmc check <ID> [--tier quick|thorough]     explore, write /verif/evidence/<ID>.json, print verdict lines
//!   zkmc replay <replay.json>                    re-execute the root of a recorded violation, no enumeration
//!   zkmc gate                                    run the reference's fixture gate only
//!   zkmc worker                                  (internal) isolated worker for untrusted-input sweeps
mod common;
mod edits;
mod hist;
mod sweep;
mod zk;
mod c01;
mod c02;
mod c03;
mod c04;
mod c05;
mod c06;
mod c07;
mod c08;
mod c09;
mod c10;
mod c11;
mod c12;
mod worker;

use common::Env;

#[global_allocator]
static GLOBAL: worker::Counting = worker::Counting;
use mccore::{Ctx, Out, Tier};

fn level_of(id: &str) -> &'static str {
    match id {
        "C08" | "C09" => "exploration",
        _ => "model_checking",
    }
}

fn run(id: &str, tier: Tier, seed: u64, only_root: Option<String>, out: &Out) -> i32 {
    // fixture gate first: the reference is not believed unless it reproduces every fixture
    match refbbs::fixtures::gate(std::path::Path::new(&mccore::repo_root())) {
        Ok(g) => out.line(&format!("fixture gate: reference reproduces {} files / {} checks", g.files, g.checks)),
        Err(e) => {
            out.line(&format!("MACHINERY-ERROR: fixture gate failed: {}", e));
            return 2;
        }
    }
    let env = Env::new(Ctx::new(id, tier, seed, level_of(id)), only_root);
    env.ctx.assume("trusted base shared with the subject: bls12_381_plus group/pairing/point-compression arithmetic, elliptic_curve hash_to_curve, sha2/sha3");
    env.ctx.assume("the reference implementation refbbs reproduces every fixture under fixture_data/ and fixture_data_blind/ (gate run before this check)");
    match id {
        "C01" => c01::run(&env),
        "C02" => c02::run(&env),
        "C03" => c03::run(&env),
        "C04" => c04::run(&env),
        "C05" => c05::run(&env),
        "C06" => c06::run(&env),
        "C07" => c07::run(&env),
        "C08" => c08::run(&env),
        "C09" => c09::run(&env),
        "C10" => c10::run(&env),
        "C11" => c11::run(&env),
        "C12" => c12::run(&env),
        _ => {
            out.line(&format!("MACHINERY-ERROR: unknown property {}", id));
            return 2;
        }
    }
    let code = env.ctx.finish(out);
    if env.has_machinery_error() {
        out.line("MACHINERY-ERROR: reference and semantic oracle disagree (see notes in evidence)");
        return 2;
    }
    code
}

fn main() {
    let args: Vec<String> = std::env::args().collect();
    if args.len() >= 2 && args[1] == "worker" {
        worker::main();
        return;
    }
    let out = Out::capture();
    mccore::quiet_panics();
    let seed: u64 = std::env::var("VERIF_SEED").ok().and_then(|s| s.parse().ok()).unwrap_or(0);
    if args.get(1).map(|s| s.as_str()) == Some("c07-child") {
        c07::child_main(&args[2..], &out);
        return;
    }
    if args.get(1).map(|s| s.as_str()) == Some("c10-child") {
        c10::child_main(&args[2..], &out);
        return;
    }
    let code = match args.get(1).map(|s| s.as_str()) {
        Some("gate") => match refbbs::fixtures::gate(std::path::Path::new(&mccore::repo_root())) {
            Ok(g) => {
                out.line(&format!("gate ok files={} checks={}", g.files, g.checks));
                0
            }
            Err(e) => {
                out.line(&format!("MACHINERY-ERROR: gate: {}", e));
                2
            }
        },
        Some("check") => {
            let id = args.get(2).cloned().unwrap_or_default();
            let mut tier = match std::env::var("VERIF_TIER").as_deref() {
                Ok("thorough") => Tier::Thorough,
                _ => Tier::Quick,
            };
            if let Some(p) = args.iter().position(|a| a == "--tier") {
                tier = if args.get(p + 1).map(|s| s.as_str()) == Some("thorough") { Tier::Thorough } else { Tier::Quick };
            }
            let only = args.iter().position(|a| a == "--root").and_then(|p| args.get(p + 1).cloned());
            run(&id, tier, seed, only, &out)
        }
        Some("replay") => {
            let path = args.get(2).cloned().unwrap_or_default();
            match std::fs::read_to_string(&path).ok().and_then(|s| serde_json::from_str::<serde_json::Value>(&s).ok()) {
                None => {
                    out.line(&format!("MACHINERY-ERROR: cannot read replay file {}", path));
                    2
                }
                Some(v) => {
                    let id = v["property"].as_str().unwrap_or("").to_string();
                    let root = v["case"]["root"].as_str().unwrap_or("").to_string();
                    let tier = if v["case"]["tier"] == "thorough" { Tier::Thorough } else { Tier::Quick };
                    let seed = v["case"]["seed"].as_u64().unwrap_or(0);
                    out.line(&format!("replaying {} root={} (recorded: {})", id, root, v["what"].as_str().unwrap_or("")));
                    // evidence of a replay goes to a scratch id so the property's evidence file is untouched
                    std::env::set_var("VERIF_REPLAY", "1");
                    run(&id, tier, seed, Some(root), &out)
                }
            }
        }
        _ => {
            out.line("usage: zkmc check <ID> [--tier quick|thorough] | replay <file> | gate");
            2
        }
    };
    std::process::exit(code);
}
