//! The collision alphabet for history independence (C10/C11): calls that share every input component except one
//! (header, message count, message content, key, ciphersuite, api_id, committed-message count, L, ph, disclosure),
//! so that any cache or memo keyed on too little - or updated incompletely - changes an observable result within a
//! history of length <= 3. Each call returns a digest of its observable result: bytes for deterministic operations,
//! the verdict for verifiers and randomised operations. All inputs are fixed and made by the REFERENCE, so that no
//! call depends on another call's output.
#![allow(non_snake_case)]
use crate::common::*;
use bls12_381_plus::Scalar;
use mccore::O;
use refbbs::Suite;
use std::sync::OnceLock;


pub struct Fix {
    pub k0: Key, pub k1: Key, pub k0s: Key,
    pub m2: Vec<Vec<u8>>, pub m2x: Vec<Vec<u8>>, pub m3: Vec<Vec<u8>>, pub cm1: Vec<Vec<u8>>, pub cm2: Vec<Vec<u8>>,
    pub sig_a: Vec<u8>, pub sig_b: Vec<u8>, pub sig_c: Vec<u8>, pub sig_s: Vec<u8>, pub sig_s3: Vec<u8>,
    pub sig_x: Vec<u8>, pub proof_x: Vec<u8>, pub proof_a: Vec<u8>, pub cwp1: Vec<u8>, pub cwp2: Vec<u8>, pub blind1: [u8; 32], pub bsig1: Vec<u8>, pub bproof1: Vec<u8>,
}
const H1: &[u8] = b"header-one"; const H2: &[u8] = b"header-two"; const PH1: &[u8] = b"ph-one"; const PH2: &[u8] = b"ph-two";

pub fn fix() -> &'static Fix {
    static F: OnceLock<Fix> = OnceLock::new();
    F.get_or_init(|| {
        let (sha, shake) = (Suite::Sha256, Suite::Shake256);
        let (k0, k1, k0s) = (key(sha, "k0"), key(sha, "k1"), key(shake, "k0"));
        let sk = |k: &Key| refbbs::octets_to_scalar_strict(&k.sk).unwrap();
        let pk = |k: &Key| -> [u8; 96] { k.pk.clone().try_into().unwrap() };
        let m2 = vec![b"a".to_vec(), b"bb".to_vec()]; let m2x = vec![b"a".to_vec(), b"bc".to_vec()]; let m3 = vec![b"a".to_vec(), b"bb".to_vec(), b"ccc".to_vec()];
        let cm1 = vec![b"c1".to_vec()]; let cm2 = vec![b"c1".to_vec(), b"c2".to_vec()];
        let sig_a = refbbs::sign(sha, &sk(&k0), &pk(&k0), H1, &m2).unwrap().to_vec();
        let sig_b = refbbs::sign(sha, &sk(&k0), &pk(&k0), H2, &m2).unwrap().to_vec();
        let sig_c = refbbs::sign(sha, &sk(&k0), &pk(&k0), H1, &m3).unwrap().to_vec();
        let sig_s = refbbs::sign(shake, &sk(&k0s), &pk(&k0s), H1, &m2).unwrap().to_vec();
        let sig_s3 = refbbs::sign(shake, &sk(&k0s), &pk(&k0s), H1, &m3).unwrap().to_vec();
        let rnd = |l: &[u8], n: usize| -> Vec<Scalar> { (0..n).map(|i| refbbs::random_scalar_from(b"hist", l, i as u64)).collect() };
        let proof_a = refbbs::proof_gen(sha, &pk(&k0), &sig_a, H1, PH1, &m2, &[1], &rnd(b"pa", 6)).unwrap();
        // the SAME key octets (sk is a scalar, pk = sk * BP2: neither depends on the ciphersuite) used under the other suite with the
        // same header and message count: collides in everything but the ciphersuite
        let sig_x = refbbs::sign(shake, &sk(&k0), &pk(&k0), H1, &m2).unwrap().to_vec();
        let proof_x = refbbs::proof_gen(shake, &pk(&k0), &sig_x, H1, PH1, &m2, &[1], &rnd(b"px", 6)).unwrap();
        let (cwp1, b1) = refbbs::commit(sha, &cm1, &rnd(b"c1", 3)).unwrap();
        let (cwp2, _b2) = refbbs::commit(sha, &cm2, &rnd(b"c2", 4)).unwrap();
        let bsig1 = refbbs::blind_sign(sha, &sk(&k0), &pk(&k0), &cwp1, H1, &m2).unwrap().to_vec();
        let bproof1 = refbbs::blind_proof_gen(sha, &pk(&k0), &bsig1, H1, PH1, &m2, &cm1, &[0], &[], &b1, &rnd(b"bp", 5 + 3)).unwrap();
        Fix { k0, k1, k0s, m2, m2x, m3, cm1, cm2, sig_a, sig_b, sig_c, sig_s, sig_s3, sig_x, proof_x, proof_a, cwp1, cwp2, blind1: b1.to_be_bytes(), bsig1, bproof1 }
    })
}

/// (name, family). Families: 'G' generators, 'S' sign, 'V' verify, 'P' proofs, 'B' blind interface, 'M' others.
pub const CALLS: [(&str, char); 45] = [
    ("generators(5,API_ID)/sha", 'G'), ("generators(5,API_ID_BLIND)/sha", 'G'), ("generators(8,API_ID)/sha", 'G'), ("generators(5,API_ID)/shake", 'G'), ("generators(5,None)/sha", 'G'), ("generators(5,None)/shake", 'G'), ("generators(3,API_ID)/sha", 'G'),
    ("sign(k0,H1,m2)/sha", 'S'), ("sign(k0,H2,m2)/sha", 'S'), ("sign(k0,H1,m3)/sha", 'S'), ("sign(k1,H1,m2)/sha", 'S'), ("sign(k0,H1,m2)/shake", 'S'), ("sign(k0,None,m2)/sha", 'S'),
    ("verify(sigA,H1,m2)=Ok", 'V'), ("verify(sigA,H2,m2)=Err", 'V'), ("verify(sigB,H2,m2)=Ok", 'V'), ("verify(sigB,H1,m2)=Err", 'V'), ("verify(sigC,H1,m3)=Ok", 'V'), ("verify(sigA,H1,m2')=Err", 'V'), ("verify(sigS,H1,m2)/shake=Ok", 'V'),
    ("proof_gen(sigA,H1,ph1,D={1})+verify", 'P'), ("proof_verify(PA,H1,ph1,D={1})=Ok", 'P'), ("proof_verify(PA,H2,..)=Err", 'P'), ("proof_verify(PA,..,ph2)=Err", 'P'), ("proof_verify(PA claimed D={0})=Err", 'P'),
    ("blind_sign(no commitment,H1,m2)", 'B'), ("blind_sign(commitment M=1,H1,m2)", 'B'), ("blind_sign(commitment M=2,H1,m2)", 'B'),
    ("verify_blind_sign(bsig1,m2,cm1)=Ok", 'B'), ("verify_blind_sign(bsig1,m2,cm2)=Err", 'B'),
    ("blind_proof_verify(BP1,L=2)=Ok", 'B'), ("blind_proof_verify(BP1,L=1)=Err", 'B'), ("blind_proof_verify(BP1,L=3)=Err", 'B'),
    ("update_signature(sigC,i=0)/sha", 'U'), ("update_signature(sigC,i=2)/sha", 'U'), ("update_signature(sigS3,i=0)/shake", 'U'), ("update_signature(sigS3,i=2)/shake", 'U'), ("update_signature(sigC,i=1)/sha", 'U'),
    ("commit(cm2)+validate", 'M'), ("keygen/sha", 'M'), ("messages_to_scalars/shake", 'M'),
    ("sign(k0 of sha,H1,m2)/shake", 'S'), ("verify(sigX by k0 of sha,H1,m2)/shake=Ok", 'V'), ("proof_gen(sigX by k0 of sha,H1,ph1,D={1})/shake+verify", 'P'), ("proof_verify(PX by k0 of sha,H1,ph1,D={1})/shake=Ok", 'P'),
];

pub fn call(i: usize) -> String {
    let f = fix();
    let (sha, shake) = (Suite::Sha256, Suite::Shake256);
    let hd = |o: O<Vec<u8>>| match o { O::Ok(b) => hex::encode(b), O::Err(e) => format!("Err({})", e), O::Panic(p) => format!("PANIC({})", p) };
    let vd = |o: O<()>| match o { O::Ok(_) => "Ok".to_string(), O::Err(_) => "Err".to_string(), O::Panic(p) => format!("PANIC({})", p) };
    let gens = |s: Suite, n: usize, api: Option<Vec<u8>>| hd(z(s).generators(n, api.as_deref()).map(|g| g.concat()));
    let (zs, zk) = (z(sha), z(shake));
    match i {
        0 => gens(sha, 5, Some(sha.api_id())), 1 => gens(sha, 5, Some(sha.api_id_blind())), 2 => gens(sha, 8, Some(sha.api_id())), 3 => gens(shake, 5, Some(shake.api_id())), 4 => gens(sha, 5, None), 5 => gens(shake, 5, None), 6 => gens(sha, 3, Some(sha.api_id())),
        7 => hd(zs.sign(&f.k0.sk, &f.k0.pk, Some(H1), Some(&f.m2))), 8 => hd(zs.sign(&f.k0.sk, &f.k0.pk, Some(H2), Some(&f.m2))), 9 => hd(zs.sign(&f.k0.sk, &f.k0.pk, Some(H1), Some(&f.m3))),
        10 => hd(zs.sign(&f.k1.sk, &f.k1.pk, Some(H1), Some(&f.m2))), 11 => hd(zk.sign(&f.k0s.sk, &f.k0s.pk, Some(H1), Some(&f.m2))), 12 => hd(zs.sign(&f.k0.sk, &f.k0.pk, None, Some(&f.m2))),
        13 => vd(zs.verify(&f.k0.pk, &f.sig_a, Some(H1), Some(&f.m2))), 14 => vd(zs.verify(&f.k0.pk, &f.sig_a, Some(H2), Some(&f.m2))), 15 => vd(zs.verify(&f.k0.pk, &f.sig_b, Some(H2), Some(&f.m2))), 16 => vd(zs.verify(&f.k0.pk, &f.sig_b, Some(H1), Some(&f.m2))),
        17 => vd(zs.verify(&f.k0.pk, &f.sig_c, Some(H1), Some(&f.m3))), 18 => vd(zs.verify(&f.k0.pk, &f.sig_a, Some(H1), Some(&f.m2x))), 19 => vd(zk.verify(&f.k0s.pk, &f.sig_s, Some(H1), Some(&f.m2))),
        20 => match zs.proof_gen(&f.k0.pk, &f.sig_a, Some(H1), Some(PH1), Some(&f.m2), Some(&[1])) { O::Ok(p) => format!("len={} verify={}", p.len(), vd(zs.proof_verify(&f.k0.pk, &p, Some(H1), Some(PH1), Some(&f.m2[1..]), Some(&[1])))), o => o.describe() },
        21 => vd(zs.proof_verify(&f.k0.pk, &f.proof_a, Some(H1), Some(PH1), Some(&f.m2[1..]), Some(&[1]))), 22 => vd(zs.proof_verify(&f.k0.pk, &f.proof_a, Some(H2), Some(PH1), Some(&f.m2[1..]), Some(&[1]))),
        23 => vd(zs.proof_verify(&f.k0.pk, &f.proof_a, Some(H1), Some(PH2), Some(&f.m2[1..]), Some(&[1]))), 24 => vd(zs.proof_verify(&f.k0.pk, &f.proof_a, Some(H1), Some(PH1), Some(&f.m2[..1]), Some(&[0]))),
        25 => hd(zs.blind_sign(&f.k0.sk, &f.k0.pk, None, Some(H1), Some(&f.m2))), 26 => hd(zs.blind_sign(&f.k0.sk, &f.k0.pk, Some(&f.cwp1), Some(H1), Some(&f.m2))), 27 => hd(zs.blind_sign(&f.k0.sk, &f.k0.pk, Some(&f.cwp2), Some(H1), Some(&f.m2))),
        28 => vd(zs.verify_blind_sign(&f.k0.pk, &f.bsig1, Some(H1), Some(&f.m2), Some(&f.cm1), Some(&f.blind1))), 29 => vd(zs.verify_blind_sign(&f.k0.pk, &f.bsig1, Some(H1), Some(&f.m2), Some(&f.cm2), Some(&f.blind1))),
        30 => vd(zs.blind_proof_verify(&f.k0.pk, &f.bproof1, Some(H1), Some(PH1), Some(2), Some(&f.m2[..1]), None, Some(&[0]), None)), 31 => vd(zs.blind_proof_verify(&f.k0.pk, &f.bproof1, Some(H1), Some(PH1), Some(1), Some(&f.m2[..1]), None, Some(&[0]), None)),
        32 => vd(zs.blind_proof_verify(&f.k0.pk, &f.bproof1, Some(H1), Some(PH1), Some(3), Some(&f.m2[..1]), None, Some(&[0]), None)),
        33 => hd(zs.update_signature(&f.k0.sk, &f.sig_c, &f.m3[0], b"new", 0, 3)), 34 => hd(zs.update_signature(&f.k0.sk, &f.sig_c, &f.m3[2], b"new", 2, 3)),
        35 => hd(zk.update_signature(&f.k0s.sk, &f.sig_s3, &f.m3[0], b"new", 0, 3)), 36 => hd(zk.update_signature(&f.k0s.sk, &f.sig_s3, &f.m3[2], b"new", 2, 3)), 37 => hd(zs.update_signature(&f.k0.sk, &f.sig_c, &f.m3[1], b"new", 1, 3)),
        38 => match zs.commit(Some(&f.cm2)) { O::Ok((c, _)) => format!("len={} validate={}", c.len(), zs.deserialize_and_validate_commit(Some(&c), 3).kind()), o => o.describe() },
        39 => hd(zs.keygen(&[9u8; 40], Some(b"info"), None).map(|(a, b)| [a, b].concat())),
        40 => hd(zk.messages_to_scalars(&f.m2, &shake.api_id()).map(|v| v.concat())),
        41 => hd(zk.sign(&f.k0.sk, &f.k0.pk, Some(H1), Some(&f.m2))), 42 => vd(zk.verify(&f.k0.pk, &f.sig_x, Some(H1), Some(&f.m2))),
        43 => match zk.proof_gen(&f.k0.pk, &f.sig_x, Some(H1), Some(PH1), Some(&f.m2), Some(&[1])) { O::Ok(p) => format!("len={} verify={}", p.len(), vd(zk.proof_verify(&f.k0.pk, &p, Some(H1), Some(PH1), Some(&f.m2[1..]), Some(&[1])))), o => o.describe() },
        _ => vd(zk.proof_verify(&f.k0.pk, &f.proof_x, Some(H1), Some(PH1), Some(&f.m2[1..]), Some(&[1]))),
    }
}

/// What each call must return according to the reference (None: randomised output not pinned here): a second,
/// independent baseline besides the fresh-process value.
pub fn expected(i: usize) -> Option<String> {
    let n = CALLS[i].0;
    if n.ends_with("=Ok") { return Some("Ok".into()); }
    if n.ends_with("=Err") { return Some("Err".into()); }
    let f = fix(); let (sha, shake) = (Suite::Sha256, Suite::Shake256);
    let sk = |k: &Key| refbbs::octets_to_scalar_strict(&k.sk).unwrap();
    let pk = |k: &Key| -> [u8; 96] { k.pk.clone().try_into().unwrap() };
    let gens = |s: Suite, n: usize, api: Vec<u8>| hex::encode(refbbs::create_generators(s, n, &api).iter().flat_map(|g| refbbs::g1_bytes(g)).collect::<Vec<u8>>());
    let hx = |r: Result<[u8; 80], String>| r.ok().map(hex::encode);
    match i {
        0 => Some(gens(sha, 5, sha.api_id())), 1 => Some(gens(sha, 5, sha.api_id_blind())), 2 => Some(gens(sha, 8, sha.api_id())), 3 => Some(gens(shake, 5, shake.api_id())), 4 => Some(gens(sha, 5, vec![])), 5 => Some(gens(shake, 5, vec![])), 6 => Some(gens(sha, 3, sha.api_id())),
        7 => hx(refbbs::sign(sha, &sk(&f.k0), &pk(&f.k0), H1, &f.m2)), 8 => hx(refbbs::sign(sha, &sk(&f.k0), &pk(&f.k0), H2, &f.m2)), 9 => hx(refbbs::sign(sha, &sk(&f.k0), &pk(&f.k0), H1, &f.m3)),
        10 => hx(refbbs::sign(sha, &sk(&f.k1), &pk(&f.k1), H1, &f.m2)), 11 => hx(refbbs::sign(shake, &sk(&f.k0s), &pk(&f.k0s), H1, &f.m2)), 12 => hx(refbbs::sign(sha, &sk(&f.k0), &pk(&f.k0), b"", &f.m2)),
        20 | 43 => Some("len=304 verify=Ok".into()),
        41 => hx(refbbs::sign(shake, &sk(&f.k0), &pk(&f.k0), H1, &f.m2)),
        25 => hx(refbbs::blind_sign(sha, &sk(&f.k0), &pk(&f.k0), &[], H1, &f.m2)), 26 => hx(refbbs::blind_sign(sha, &sk(&f.k0), &pk(&f.k0), &f.cwp1, H1, &f.m2)), 27 => hx(refbbs::blind_sign(sha, &sk(&f.k0), &pk(&f.k0), &f.cwp2, H1, &f.m2)),
        33 => hx(refbbs::update_signature(sha, &sk(&f.k0), &f.sig_c, &f.m3[0], b"new", 0, 3)), 34 => hx(refbbs::update_signature(sha, &sk(&f.k0), &f.sig_c, &f.m3[2], b"new", 2, 3)),
        35 => hx(refbbs::update_signature(shake, &sk(&f.k0s), &f.sig_s3, &f.m3[0], b"new", 0, 3)), 36 => hx(refbbs::update_signature(shake, &sk(&f.k0s), &f.sig_s3, &f.m3[2], b"new", 2, 3)), 37 => hx(refbbs::update_signature(sha, &sk(&f.k0), &f.sig_c, &f.m3[1], b"new", 1, 3)),
        38 => Some("len=176 validate=ok".into()),
        39 => refbbs::keygen(sha, &[9u8; 40], b"info", None).ok().map(|s| hex::encode([refbbs::sc_bytes(&s).to_vec(), refbbs::sk_to_pk(&s).to_vec()].concat())),
        40 => refbbs::messages_to_scalars(shake, &f.m2, &shake.api_id()).ok().map(|v| hex::encode(v.iter().flat_map(|x| refbbs::sc_bytes(x)).collect::<Vec<u8>>())),
        _ => None,
    }
}

/// All call sequences of length <= 3 within the given families, executed on ONE thread (thread-local hidden state
/// persists), every step compared with the value the reference pins for that call. Used by the property checks whose
/// operations these are, so that a memo keyed on too little (or updated incompletely) is found by the check of the
/// property it breaks.
pub fn explore_families(env: &Env, fams: &[char], what: &str) {
    let root = format!("histories/{}", fams.iter().collect::<String>());
    if !env.want(&root) { return; }
    let calls: Vec<usize> = (0..CALLS.len()).filter(|&c| fams.contains(&CALLS[c].1) && expected(c).is_some()).collect();
    let exp: Vec<Option<String>> = (0..CALLS.len()).map(expected).collect();
    let mut hists: Vec<Vec<usize>> = Vec::new();
    for &a in &calls { hists.push(vec![a]); for &b in &calls { hists.push(vec![a, b]); for &c in &calls { hists.push(vec![a, b, c]); } } }
    // one dedicated thread per first call: every history runs entirely on one thread, so what an earlier call leaves behind in
    // thread-local state is seen by the later ones (and by the following histories on that thread)
    std::thread::scope(|sc| { for &first in &calls { let (hists, exp, root) = (&hists, &exp, &root); sc.spawn(move || {
        for h in hists.iter().filter(|h| h[0] == first) {
            if env.ctx.out_of_time() { break; }
            env.ctx.state(&[root.as_bytes(), &h.iter().map(|&x| x as u8).collect::<Vec<u8>>()]);
            for (step, &c) in h.iter().enumerate() {
                let r = call(c); env.ctx.step();
                if Some(&r) != exp[c].as_ref() {
                    env.ctx.violation(&format!("{}:history:{}", env.ctx.prop, CALLS[c].0), &format!("{}: after {:?} the call {} returned {} instead of {}", what, h[..step].iter().map(|&x| CALLS[x].0).collect::<Vec<_>>(), CALLS[c].0, r.chars().take(60).collect::<String>(), exp[c].clone().unwrap_or_default().chars().take(60).collect::<String>()), env.case(root, serde_json::json!({"history": h.iter().map(|&x| CALLS[x].0).collect::<Vec<_>>(), "step": step})));
                }
            }
            env.ctx.class(&format!("history:len{}", h.len())); env.ctx.trace();
        }
    }); } });
    env.ctx.add_extra("operation_histories", hists.len() as u64);
}
