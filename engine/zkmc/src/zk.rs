//! Bytes-level adapter over the REAL zkryptium API (both ciphersuites), every call under catch_unwind.
//! Nothing here re-implements anything: each method parses its byte arguments with the crate's own decoders and
//! calls the crate's public entry point, exactly as an application would.
#![allow(non_snake_case)]
#![allow(clippy::too_many_arguments)]

use elliptic_curve::hash2curve::ExpandMsg;
use mccore::{guard, guard_val, O};
use refbbs::Suite;
use zkryptium::bbsplus::ciphersuites::BbsCiphersuite;
use zkryptium::bbsplus::commitment::BlindFactor;
use zkryptium::bbsplus::generators::Generators;
use zkryptium::bbsplus::keys::{BBSplusPublicKey, BBSplusSecretKey};
use zkryptium::errors::Error;
use zkryptium::keys::pair::KeyPair;
use zkryptium::schemes::algorithms::{BBSplus, BbsBls12381Sha256, BbsBls12381Shake256, Scheme};
use zkryptium::schemes::generics::{BlindSignature, Commitment, PoKSignature, Signature};
use zkryptium::utils::message::bbsplus_message::BBSplusMessage;
use zkryptium::utils::util::bbsplus_utils;

pub type Msgs<'a> = Option<&'a [Vec<u8>]>;
pub type Idx<'a> = Option<&'a [usize]>;
pub type Hdr<'a> = Option<&'a [u8]>;

pub trait Zk: Sync {
    fn suite(&self) -> Suite;
    fn keygen(&self, ikm: &[u8], key_info: Hdr, key_dst: Hdr) -> O<(Vec<u8>, Vec<u8>)>;
    fn keygen_json_roundtrip(&self, ikm: &[u8]) -> O<bool>;
    fn random_keypair(&self) -> O<(Vec<u8>, Vec<u8>)>;
    fn sk_to_pk(&self, sk: &[u8]) -> O<Vec<u8>>;
    fn sign(&self, sk: &[u8], pk: &[u8], header: Hdr, msgs: Msgs) -> O<Vec<u8>>;
    fn verify(&self, pk: &[u8], sig: &[u8], header: Hdr, msgs: Msgs) -> O<()>;
    fn update_signature(&self, sk: &[u8], sig: &[u8], old: &[u8], new: &[u8], idx: usize, n: usize) -> O<Vec<u8>>;
    fn proof_gen(&self, pk: &[u8], sig: &[u8], header: Hdr, ph: Hdr, msgs: Msgs, idx: Idx) -> O<Vec<u8>>;
    fn proof_verify(&self, pk: &[u8], proof: &[u8], header: Hdr, ph: Hdr, dmsgs: Msgs, idx: Idx) -> O<()>;
    /// verify a proof given as JSON (serde) rather than octets: the path that bypasses from_bytes
    fn proof_verify_json(&self, pk: &[u8], proof_json: &str, header: Hdr, ph: Hdr, dmsgs: Msgs, idx: Idx) -> O<()>;
    fn commit(&self, cmsgs: Msgs) -> O<(Vec<u8>, [u8; 32])>;
    fn blind_sign(&self, sk: &[u8], pk: &[u8], cwp: Hdr, header: Hdr, msgs: Msgs) -> O<Vec<u8>>;
    fn verify_blind_sign(&self, pk: &[u8], sig: &[u8], header: Hdr, msgs: Msgs, cmsgs: Msgs, blind: Option<&[u8; 32]>) -> O<()>;
    fn blind_proof_gen(&self, pk: &[u8], sig: &[u8], header: Hdr, ph: Hdr, msgs: Msgs, cmsgs: Msgs, idx: Idx, cidx: Idx, blind: Option<&[u8; 32]>) -> O<Vec<u8>>;
    fn blind_proof_verify(&self, pk: &[u8], proof: &[u8], header: Hdr, ph: Hdr, L: Option<usize>, dmsgs: Msgs, dcmsgs: Msgs, idx: Idx, cidx: Idx) -> O<()>;
    fn deserialize_and_validate_commit(&self, cwp: Hdr, n_blind_generators: usize) -> O<Vec<u8>>;
    fn generators(&self, count: usize, api_id: Hdr) -> O<Vec<[u8; 48]>>;
    fn p1(&self) -> [u8; 48];
    fn hash_to_scalar(&self, msg: &[u8], dst: &[u8]) -> O<[u8; 32]>;
    fn map_message(&self, msg: &[u8], api_id: &[u8]) -> O<[u8; 32]>;
    fn messages_to_scalars(&self, msgs: &[Vec<u8>], api_id: &[u8]) -> O<Vec<[u8; 32]>>;
    // decoders: Ok(re-encoding) | Err | Panic
    fn dec_pk(&self, b: &[u8]) -> O<Vec<u8>>;
    fn dec_sk(&self, b: &[u8]) -> O<Vec<u8>>;
    fn dec_sig(&self, b: &[u8]) -> O<Vec<u8>>;
    fn dec_blind_sig(&self, b: &[u8]) -> O<Vec<u8>>;
    fn dec_proof(&self, b: &[u8]) -> O<Vec<u8>>;
    fn dec_zkpok(&self, b: &[u8]) -> O<Vec<u8>>;
    fn dec_commitment(&self, b: &[u8]) -> O<Vec<u8>>;
    fn dec_blind_factor(&self, b: &[u8]) -> O<Vec<u8>>;
    fn pk_coords_roundtrip(&self, pk: &[u8]) -> O<Vec<u8>>;
    fn pk_from_coords(&self, x: &[u8; 96], y: &[u8; 96]) -> O<Vec<u8>>;
    fn pk_to_coords(&self, pk: &[u8]) -> O<(Vec<u8>, Vec<u8>)>;
    // JSON codecs: octets -> json ; json -> octets
    fn json_of(&self, kind: Kind, b: &[u8]) -> O<String>;
    fn octets_of_json(&self, kind: Kind, j: &str) -> O<Vec<u8>>;
    /// decode an object from JSON and hand it to every consumer a verifier / holder would call on it (results ignored:
    /// only "returns a value" is of interest to the caller)
    fn use_json(&self, kind: Kind, j: &str, pk: &[u8], header: Hdr, ph: Hdr, msgs: Msgs) -> O<()>;
    /// the public helper prepare_parameters: returns (message scalars, generator list)
    fn prepare_parameters(&self, msgs: Msgs, cmsgs: Msgs, ng: usize, nbg: usize, blind: Option<&[u8; 32]>, api_id: Hdr) -> O<(Vec<[u8; 32]>, Vec<[u8; 48]>)>;
    fn random_blind_factor(&self) -> O<[u8; 32]>;
    fn random_secret(&self, n: usize) -> O<Vec<u8>>;
}

#[derive(Clone, Copy, PartialEq, Eq, Debug, Hash, PartialOrd, Ord)]
pub enum Kind {
    Pk,
    Sk,
    Sig,
    BlindSig,
    Proof,
    Commitment,
}
pub const KINDS: [Kind; 6] = [Kind::Pk, Kind::Sk, Kind::Sig, Kind::BlindSig, Kind::Proof, Kind::Commitment];

pub struct Z<S: Scheme>(std::marker::PhantomData<fn() -> S>, Suite);

pub static SHA: Z<BbsBls12381Sha256> = Z(std::marker::PhantomData, Suite::Sha256);
pub static SHAKE: Z<BbsBls12381Shake256> = Z(std::marker::PhantomData, Suite::Shake256);

pub fn zk(s: Suite) -> &'static dyn Zk {
    match s {
        Suite::Sha256 => &SHA,
        Suite::Shake256 => &SHAKE,
    }
}

fn pk_of(b: &[u8]) -> Result<BBSplusPublicKey, Error> {
    BBSplusPublicKey::from_bytes(b)
}
fn sk_of(b: &[u8]) -> Result<BBSplusSecretKey, Error> {
    BBSplusSecretKey::from_bytes(b)
}
fn sig80(b: &[u8]) -> Result<&[u8; 80], Error> {
    b.try_into().map_err(|_| Error::InvalidSignature)
}
fn bf(b: Option<&[u8; 32]>) -> Result<Option<BlindFactor>, Error> {
    match b {
        None => Ok(None),
        Some(x) => Ok(Some(BlindFactor::from_bytes(x)?)),
    }
}

impl<CS: BbsCiphersuite> Zk for Z<BBSplus<CS>>
where
    CS::Expander: for<'a> ExpandMsg<'a>,
    BBSplus<CS>: Scheme<PrivKey = BBSplusSecretKey, PubKey = BBSplusPublicKey>,
{
    fn suite(&self) -> Suite {
        self.1
    }
    fn keygen(&self, ikm: &[u8], key_info: Hdr, key_dst: Hdr) -> O<(Vec<u8>, Vec<u8>)> {
        guard(|| {
            let kp = KeyPair::<BBSplus<CS>>::generate(ikm, key_info, key_dst)?;
            Ok::<_, Error>((kp.private_key().to_bytes().to_vec(), kp.public_key().to_bytes().to_vec()))
        })
    }
    fn keygen_json_roundtrip(&self, ikm: &[u8]) -> O<bool> {
        guard(|| {
            let kp = KeyPair::<BBSplus<CS>>::generate(ikm, None, None)?;
            let j = serde_json::to_string(&kp).map_err(|_| Error::Unspecified)?;
            let kp2: KeyPair<BBSplus<CS>> = serde_json::from_str(&j).map_err(|_| Error::Unspecified)?;
            Ok::<_, Error>(kp == kp2)
        })
    }
    fn random_keypair(&self) -> O<(Vec<u8>, Vec<u8>)> {
        guard(|| {
            let kp = KeyPair::<BBSplus<CS>>::random()?;
            Ok::<_, Error>((kp.private_key().to_bytes().to_vec(), kp.public_key().to_bytes().to_vec()))
        })
    }
    fn sk_to_pk(&self, sk: &[u8]) -> O<Vec<u8>> {
        guard(|| Ok::<_, Error>(sk_of(sk)?.public_key().to_bytes().to_vec()))
    }
    fn sign(&self, sk: &[u8], pk: &[u8], header: Hdr, msgs: Msgs) -> O<Vec<u8>> {
        guard(|| {
            let s = Signature::<BBSplus<CS>>::sign(msgs, &sk_of(sk)?, &pk_of(pk)?, header)?;
            Ok::<_, Error>(s.to_bytes().to_vec())
        })
    }
    fn verify(&self, pk: &[u8], sig: &[u8], header: Hdr, msgs: Msgs) -> O<()> {
        guard(|| {
            let s = Signature::<BBSplus<CS>>::from_bytes(sig80(sig)?)?;
            s.verify(&pk_of(pk)?, msgs, header)
        })
    }
    fn update_signature(&self, sk: &[u8], sig: &[u8], old: &[u8], new: &[u8], idx: usize, n: usize) -> O<Vec<u8>> {
        guard(|| {
            let s = Signature::<BBSplus<CS>>::from_bytes(sig80(sig)?)?;
            let u = s.update_signature(&sk_of(sk)?, old, new, idx, n)?;
            Ok::<_, Error>(u.to_bytes().to_vec())
        })
    }
    fn proof_gen(&self, pk: &[u8], sig: &[u8], header: Hdr, ph: Hdr, msgs: Msgs, idx: Idx) -> O<Vec<u8>> {
        guard(|| {
            let p = PoKSignature::<BBSplus<CS>>::proof_gen(&pk_of(pk)?, sig, header, ph, msgs, idx)?;
            Ok::<_, Error>(p.to_bytes())
        })
    }
    fn proof_verify(&self, pk: &[u8], proof: &[u8], header: Hdr, ph: Hdr, dmsgs: Msgs, idx: Idx) -> O<()> {
        guard(|| {
            let p = PoKSignature::<BBSplus<CS>>::from_bytes(proof)?;
            p.proof_verify(&pk_of(pk)?, dmsgs, idx, header, ph)
        })
    }
    fn proof_verify_json(&self, pk: &[u8], proof_json: &str, header: Hdr, ph: Hdr, dmsgs: Msgs, idx: Idx) -> O<()> {
        guard(|| {
            let p: PoKSignature<BBSplus<CS>> =
                serde_json::from_str(proof_json).map_err(|e| Error::DeserializationError(e.to_string()))?;
            p.proof_verify(&pk_of(pk)?, dmsgs, idx, header, ph)
        })
    }
    fn commit(&self, cmsgs: Msgs) -> O<(Vec<u8>, [u8; 32])> {
        guard(|| {
            let (c, b) = Commitment::<BBSplus<CS>>::commit(cmsgs)?;
            Ok::<_, Error>((c.to_bytes(), b.to_bytes()))
        })
    }
    fn blind_sign(&self, sk: &[u8], pk: &[u8], cwp: Hdr, header: Hdr, msgs: Msgs) -> O<Vec<u8>> {
        guard(|| {
            let s = BlindSignature::<BBSplus<CS>>::blind_sign(&sk_of(sk)?, &pk_of(pk)?, cwp, header, msgs)?;
            Ok::<_, Error>(s.to_bytes().to_vec())
        })
    }
    fn verify_blind_sign(&self, pk: &[u8], sig: &[u8], header: Hdr, msgs: Msgs, cmsgs: Msgs, blind: Option<&[u8; 32]>) -> O<()> {
        guard(|| {
            let s = BlindSignature::<BBSplus<CS>>::from_bytes(sig80(sig)?)?;
            let b = bf(blind)?;
            s.verify_blind_sign(&pk_of(pk)?, header, msgs, cmsgs, b.as_ref())
        })
    }
    fn blind_proof_gen(&self, pk: &[u8], sig: &[u8], header: Hdr, ph: Hdr, msgs: Msgs, cmsgs: Msgs, idx: Idx, cidx: Idx, blind: Option<&[u8; 32]>) -> O<Vec<u8>> {
        guard(|| {
            let b = bf(blind)?;
            let p = PoKSignature::<BBSplus<CS>>::blind_proof_gen(&pk_of(pk)?, sig, header, ph, msgs, cmsgs, idx, cidx, b.as_ref())?;
            Ok::<_, Error>(p.to_bytes())
        })
    }
    fn blind_proof_verify(&self, pk: &[u8], proof: &[u8], header: Hdr, ph: Hdr, L: Option<usize>, dmsgs: Msgs, dcmsgs: Msgs, idx: Idx, cidx: Idx) -> O<()> {
        guard(|| {
            let p = PoKSignature::<BBSplus<CS>>::from_bytes(proof)?;
            p.blind_proof_verify(&pk_of(pk)?, header, ph, L, dmsgs, dcmsgs, idx, cidx)
        })
    }
    fn deserialize_and_validate_commit(&self, cwp: Hdr, n_blind_generators: usize) -> O<Vec<u8>> {
        guard(|| {
            let api = [b"BLIND_".as_slice(), CS::API_ID_BLIND].concat();
            let g = Generators::create::<CS>(n_blind_generators, Some(&api));
            let c = Commitment::<BBSplus<CS>>::deserialize_and_validate_commit(cwp, &g, Some(CS::API_ID_BLIND))?;
            use group::Curve;
            Ok::<_, Error>(c.to_affine().to_compressed().to_vec())
        })
    }
    fn generators(&self, count: usize, api_id: Hdr) -> O<Vec<[u8; 48]>> {
        guard_val(|| {
            use group::Curve;
            let g = Generators::create::<CS>(count, api_id);
            g.values.iter().map(|p| p.to_affine().to_compressed()).collect()
        })
    }
    fn p1(&self) -> [u8; 48] {
        use group::Curve;
        Generators::create::<CS>(0, None).g1_base_point.to_affine().to_compressed()
    }
    fn hash_to_scalar(&self, msg: &[u8], dst: &[u8]) -> O<[u8; 32]> {
        guard(|| Ok::<_, Error>(bbsplus_utils::hash_to_scalar::<CS>(msg, dst)?.to_be_bytes()))
    }
    fn map_message(&self, msg: &[u8], api_id: &[u8]) -> O<[u8; 32]> {
        guard(|| Ok::<_, Error>(BBSplusMessage::map_message_to_scalar_as_hash::<CS>(msg, api_id)?.to_bytes_be()))
    }
    fn messages_to_scalars(&self, msgs: &[Vec<u8>], api_id: &[u8]) -> O<Vec<[u8; 32]>> {
        guard(|| Ok::<_, Error>(BBSplusMessage::messages_to_scalar::<CS>(msgs, api_id)?.iter().map(|m| m.to_bytes_be()).collect()))
    }
    fn dec_pk(&self, b: &[u8]) -> O<Vec<u8>> {
        guard(|| Ok::<_, Error>(pk_of(b)?.to_bytes().to_vec()))
    }
    fn dec_sk(&self, b: &[u8]) -> O<Vec<u8>> {
        guard(|| Ok::<_, Error>(sk_of(b)?.to_bytes().to_vec()))
    }
    fn dec_sig(&self, b: &[u8]) -> O<Vec<u8>> {
        guard(|| Ok::<_, Error>(Signature::<BBSplus<CS>>::from_bytes(sig80(b)?)?.to_bytes().to_vec()))
    }
    fn dec_blind_sig(&self, b: &[u8]) -> O<Vec<u8>> {
        guard(|| Ok::<_, Error>(BlindSignature::<BBSplus<CS>>::from_bytes(sig80(b)?)?.to_bytes().to_vec()))
    }
    fn dec_proof(&self, b: &[u8]) -> O<Vec<u8>> {
        guard(|| Ok::<_, Error>(PoKSignature::<BBSplus<CS>>::from_bytes(b)?.to_bytes()))
    }
    fn dec_zkpok(&self, b: &[u8]) -> O<Vec<u8>> {
        guard(|| Ok::<_, Error>(zkryptium::bbsplus::proof::BBSplusZKPoK::from_bytes(b)?.to_bytes()))
    }
    fn dec_commitment(&self, b: &[u8]) -> O<Vec<u8>> {
        guard(|| Ok::<_, Error>(Commitment::<BBSplus<CS>>::from_bytes(b)?.to_bytes()))
    }
    fn dec_blind_factor(&self, b: &[u8]) -> O<Vec<u8>> {
        guard(|| {
            let a: &[u8; 32] = b.try_into().map_err(|_| Error::Unspecified)?;
            Ok::<_, Error>(BlindFactor::from_bytes(a)?.to_bytes().to_vec())
        })
    }
    fn pk_coords_roundtrip(&self, pk: &[u8]) -> O<Vec<u8>> {
        guard(|| {
            let p = pk_of(pk)?;
            let (x, y) = p.to_coordinates();
            Ok::<_, Error>(BBSplusPublicKey::from_coordinates(&x, &y)?.to_bytes().to_vec())
        })
    }
    fn pk_from_coords(&self, x: &[u8; 96], y: &[u8; 96]) -> O<Vec<u8>> {
        guard(|| Ok::<_, Error>(BBSplusPublicKey::from_coordinates(x, y)?.to_bytes().to_vec()))
    }
    fn pk_to_coords(&self, pk: &[u8]) -> O<(Vec<u8>, Vec<u8>)> {
        guard(|| {
            let (x, y) = pk_of(pk)?.to_coordinates();
            Ok::<_, Error>((x.to_vec(), y.to_vec()))
        })
    }
    fn json_of(&self, kind: Kind, b: &[u8]) -> O<String> {
        guard(|| {
            let e = |_| Error::Unspecified;
            Ok::<_, Error>(match kind {
                Kind::Pk => serde_json::to_string(&pk_of(b)?).map_err(e)?,
                Kind::Sk => serde_json::to_string(&sk_of(b)?).map_err(e)?,
                Kind::Sig => serde_json::to_string(&Signature::<BBSplus<CS>>::from_bytes(sig80(b)?)?).map_err(e)?,
                Kind::BlindSig => serde_json::to_string(&BlindSignature::<BBSplus<CS>>::from_bytes(sig80(b)?)?).map_err(e)?,
                Kind::Proof => serde_json::to_string(&PoKSignature::<BBSplus<CS>>::from_bytes(b)?).map_err(e)?,
                Kind::Commitment => serde_json::to_string(&Commitment::<BBSplus<CS>>::from_bytes(b)?).map_err(e)?,
            })
        })
    }
    fn octets_of_json(&self, kind: Kind, j: &str) -> O<Vec<u8>> {
        guard(|| {
            let e = |x: serde_json::Error| Error::DeserializationError(x.to_string());
            Ok::<_, Error>(match kind {
                Kind::Pk => serde_json::from_str::<BBSplusPublicKey>(j).map_err(e)?.to_bytes().to_vec(),
                Kind::Sk => serde_json::from_str::<BBSplusSecretKey>(j).map_err(e)?.to_bytes().to_vec(),
                Kind::Sig => serde_json::from_str::<Signature<BBSplus<CS>>>(j).map_err(e)?.to_bytes().to_vec(),
                Kind::BlindSig => serde_json::from_str::<BlindSignature<BBSplus<CS>>>(j).map_err(e)?.to_bytes().to_vec(),
                Kind::Proof => serde_json::from_str::<PoKSignature<BBSplus<CS>>>(j).map_err(e)?.to_bytes(),
                Kind::Commitment => serde_json::from_str::<Commitment<BBSplus<CS>>>(j).map_err(e)?.to_bytes(),
            })
        })
    }
    fn use_json(&self, kind: Kind, j: &str, pk: &[u8], header: Hdr, ph: Hdr, msgs: Msgs) -> O<()> {
        guard(|| {
            let e = |x: serde_json::Error| Error::DeserializationError(x.to_string());
            let one: Msgs = msgs.map(|m| &m[..m.len().min(1)]);
            match kind {
                Kind::Pk => { let k = serde_json::from_str::<BBSplusPublicKey>(j).map_err(e)?; let _ = k.to_bytes(); let _ = k.to_coordinates(); }
                Kind::Sk => { let k = serde_json::from_str::<BBSplusSecretKey>(j).map_err(e)?; let _ = k.to_bytes(); let _ = k.public_key(); }
                Kind::Sig => { let s = serde_json::from_str::<Signature<BBSplus<CS>>>(j).map_err(e)?; let _ = s.verify(&pk_of(pk)?, msgs, header); let _ = s.to_bytes(); }
                Kind::BlindSig => { let s = serde_json::from_str::<BlindSignature<BBSplus<CS>>>(j).map_err(e)?; let _ = s.verify_blind_sign(&pk_of(pk)?, header, msgs, None, None); let _ = s.to_bytes(); }
                Kind::Proof => { let p = serde_json::from_str::<PoKSignature<BBSplus<CS>>>(j).map_err(e)?;
                    let _ = p.proof_verify(&pk_of(pk)?, one, Some(&[0]), header, ph);
                    let _ = p.blind_proof_verify(&pk_of(pk)?, header, ph, Some(1), one, None, Some(&[0]), None);
                    let _ = p.to_bytes(); }
                Kind::Commitment => { let c = serde_json::from_str::<Commitment<BBSplus<CS>>>(j).map_err(e)?; let _ = c.to_bytes(); }
            }
            Ok::<_, Error>(())
        })
    }
    fn prepare_parameters(&self, msgs: Msgs, cmsgs: Msgs, ng: usize, nbg: usize, blind: Option<&[u8; 32]>, api_id: Hdr) -> O<(Vec<[u8; 32]>, Vec<[u8; 48]>)> {
        guard(|| {
            use group::Curve;
            let b = bf(blind)?;
            let (m, g) = zkryptium::bbsplus::blind::prepare_parameters::<CS>(msgs, cmsgs, ng, nbg, b.as_ref(), api_id)?;
            Ok::<_, Error>((m.iter().map(|x| x.to_bytes_be()).collect(), g.values.iter().map(|p| p.to_affine().to_compressed()).collect()))
        })
    }
    fn random_blind_factor(&self) -> O<[u8; 32]> {
        guard_val(|| BlindFactor::random().to_bytes())
    }
    fn random_secret(&self, n: usize) -> O<Vec<u8>> {
        guard_val(|| bbsplus_utils::generate_random_secret(n))
    }
}
