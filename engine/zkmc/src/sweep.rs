//! Parent side of the isolated sweeps: a pool of worker subprocesses, one case announced at a time, with per-case
//! CPU and allocation budgets, hang detection and restart after a crash.
use crate::common::Env;
use serde_json::{json, Value};
use std::io::{BufRead, BufReader, Write};
use std::process::{Child, ChildStdin, Command, Stdio};
use std::sync::mpsc::{channel, Receiver};
use std::sync::atomic::{AtomicUsize, Ordering};
use std::time::Duration;

pub struct Case {
    pub case: Value,
    /// violation signature class (no positions/lengths)
    pub class: String,
    /// size of the input in bytes, and the caller-stated count that legitimately scales the work (0 if none)
    pub bytes: usize,
    pub count: usize,
    /// Some(true/false): the outcome is also judged (Ok expected / Err expected); None: only "returns a value"
    pub expect_ok: Option<bool>,
}

struct W { child: Child, stdin: ChildStdin, rx: Receiver<String> }

fn spawn() -> Option<W> {
    let exe = std::env::current_exe().ok()?;
    let mut child = Command::new(exe).arg("worker").stdin(Stdio::piped()).stdout(Stdio::piped()).stderr(Stdio::null()).spawn().ok()?;
    let stdin = child.stdin.take()?;
    let stdout = child.stdout.take()?;
    let (tx, rx) = channel();
    std::thread::spawn(move || { for l in BufReader::new(stdout).lines() { match l { Ok(l) => { if tx.send(l).is_err() { break; } } Err(_) => break } } });
    match rx.recv_timeout(Duration::from_secs(120)) { Ok(l) if l == "READY" => Some(W { child, stdin, rx }), _ => { let _ = child.kill(); None } }
}

/// user + system CPU seconds of a live process (0 if it cannot be read)
fn child_cpu_s(pid: u32) -> f64 {
    let st = std::fs::read_to_string(format!("/proc/{}/stat", pid)).unwrap_or_default();
    let after = st.rsplit(')').next().unwrap_or("");
    let f: Vec<&str> = after.split_whitespace().collect();
    // fields after the command: state(0) ... utime is field 14, stime 15 of the full line => indexes 11, 12 here
    let t = |i: usize| f.get(i).and_then(|x| x.parse::<f64>().ok()).unwrap_or(0.0);
    (t(11) + t(12)) / 100.0
}

pub const CPU_BASE_US: u64 = 250_000;
pub const ALLOC_BASE: u64 = 256 * 1024;

pub fn cpu_budget_us(bytes: usize, count: usize) -> u64 { CPU_BASE_US + 20 * bytes as u64 + 2_000 * count as u64 }
pub fn alloc_budget(bytes: usize, count: usize) -> u64 { ALLOC_BASE + 256 * bytes as u64 + 8 * 1024 * count as u64 }

/// Run all cases; report violations into env.ctx. Each case is one state + one transition + one trace.
pub fn sweep(env: &Env, root: &str, cases: &[Case]) {
    let next = AtomicUsize::new(0);
    let nthreads = mccore::n_workers().min(cases.len().max(1));
    std::thread::scope(|sc| {
        for _ in 0..nthreads {
            sc.spawn(|| {
                let mut w = match spawn() { Some(w) => w, None => { env.machinery("cannot start sweep worker"); return; } };
                loop {
                    let i = next.fetch_add(1, Ordering::Relaxed);
                    if i >= cases.len() || env.ctx.out_of_time() { break; }
                    let c = &cases[i];
                    let line = c.case.to_string();
                    env.ctx.state(&[root.as_bytes(), line.as_bytes()]);
                    env.ctx.step();
                    let sent = writeln!(w.stdin, "{}", line).and_then(|_| w.stdin.flush());
                    // hang = the worker burnt >= 20 s of CPU on one case without answering (or stayed silent for 20 min);
                    // a worker that is merely starved by other load on the machine is waited for
                    let mut reply = None;
                    if sent.is_ok() {
                        let cpu0 = child_cpu_s(w.child.id());
                        for _ in 0..40 {
                            match w.rx.recv_timeout(Duration::from_secs(30)) {
                                Ok(l) => { reply = Some(l); break; }
                                Err(std::sync::mpsc::RecvTimeoutError::Disconnected) => break,
                                Err(_) => { if matches!(w.child.try_wait(), Ok(Some(_))) || child_cpu_s(w.child.id()) - cpu0 >= 20.0 { break; } }
                            }
                        }
                    }
                    let det = |extra: Value| env.case(root, json!({"case": c.case, "observed": extra}));
                    match reply.and_then(|l| serde_json::from_str::<Value>(&l).ok()) {
                        None => {
                            // died (abort, allocation failure, stack overflow, signal) or hung
                            let status = w.child.try_wait().ok().flatten().map(|s| format!("{:?}", s)).unwrap_or_else(|| "no answer after 20 s of CPU time (hang)".into());
                            let _ = w.child.kill(); let _ = w.child.wait();
                            env.ctx.violation(&format!("C08:{}:abort-or-hang", c.class), &format!("worker did not return from {}: {}", c.case["f"], status), det(json!({"status": status})));
                            env.ctx.class("abort-or-hang");
                            w = match spawn() { Some(w) => w, None => { env.machinery("cannot restart sweep worker"); return; } };
                        }
                        Some(r) => {
                            let k = r["k"].as_str().unwrap_or("");
                            let (cpu, alloc) = (r["cpu_us"].as_u64().unwrap_or(0), r["alloc"].as_u64().unwrap_or(0));
                            if k == "panic" {
                                env.ctx.violation(&format!("C08:{}:panic", c.class), &format!("{} panicked: {}", c.case["f"], r["msg"].as_str().unwrap_or("")), det(r.clone()));
                            } else if k != "ok" && k != "err" {
                                env.machinery(&format!("worker rejected case {}", line.chars().take(200).collect::<String>()));
                            }
                            if cpu > cpu_budget_us(c.bytes, c.count) {
                                env.ctx.violation(&format!("C08:{}:cpu-budget", c.class), &format!("{} used {} us CPU for {} input bytes (budget {})", c.case["f"], cpu, c.bytes, cpu_budget_us(c.bytes, c.count)), det(r.clone()));
                            }
                            if alloc > alloc_budget(c.bytes, c.count) {
                                env.ctx.violation(&format!("C08:{}:alloc-budget", c.class), &format!("{} allocated {} bytes for {} input bytes (budget {})", c.case["f"], alloc, c.bytes, alloc_budget(c.bytes, c.count)), det(r.clone()));
                            }
                            if let Some(e) = c.expect_ok {
                                if (k == "ok") != e && k != "panic" {
                                    env.ctx.violation(&format!("{}:{}:{}", env.ctx.prop, c.class, if k == "ok" { "accepted" } else { "rejected" }), &format!("{}: expected {} got {} {}", c.case["f"], if e { "Ok" } else { "Err" }, k, r["msg"].as_str().unwrap_or("")), det(r.clone()));
                                }
                            }
                            env.ctx.class(&format!("{}:{}", c.case["f"].as_str().unwrap_or("?"), k));
                        }
                    }
                    env.ctx.trace();
                }
                let _ = w.child.kill(); let _ = w.child.wait();
            });
        }
    });
}
