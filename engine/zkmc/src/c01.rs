//! C01 — BBS signature completeness (form A, deviation bound 0).
use crate::common::*;
use mccore::{par_for, tuples};
use refbbs::Suite;
use serde_json::json;

struct Root {
    id: String,
    suite: Suite,
    key: Key,
    hname: String,
    header: Option<Vec<u8>>,
    msgs: Vec<Vec<u8>>,
    shape: String,
}

pub fn run(env: &Env) {
    let seed = env.ctx.seed;
    let letters = msg_letters(seed);
    let nletters = if env.thorough() { 7 } else { 4 };
    let mut lists: Vec<(String, Vec<Vec<u8>>)> = Vec::new();
    for len in 0..=3 {
        for t in tuples(nletters, len) {
            lists.push((format!("t{:?}", t), t.iter().map(|&i| letters[i].clone()).collect()));
        }
    }
    let mut big: Vec<usize> = (4..=16).chain([255, 256, 257]).collect();
    if env.thorough() {
        big.extend([1000, 4096]);
    }
    let mut roots = Vec::new();
    for s in suites() {
        for k in keys(s) {
            for (hn, h) in hdr_alphabet(seed) {
                for (ln, l) in &lists {
                    roots.push(Root { id: format!("{}/{}/{}/{}", s.name(), k.id, hn, ln), suite: s, key: k.clone(), hname: hn.clone(), header: h.clone(), msgs: l.clone(), shape: ln.clone() });
                }
            }
            if k.id == "k2" {
                continue;
            }
            for (hn, h) in hdr_small(seed).into_iter().filter(|x| x.0 != "empty") {
                for &n in &big {
                    roots.push(Root { id: format!("{}/{}/{}/L{}", s.name(), k.id, hn, n), suite: s, key: k.clone(), hname: hn.clone(), header: h.clone(), msgs: distinct_msgs(seed, "c01", n), shape: format!("L{}", n) });
                }
            }
        }
    }
    // keys produced by the implementation's own KeyGen at the boundaries of its arguments (every secret key the API can hand out)
    for s in suites() {
        for (ikm_len, info_len, dst_len) in [(32usize, Some(0usize), None), (32, Some(1), None), (32, Some(65534), None), (32, Some(65535), None), (33, None, None), (64, Some(255), Some(1usize)), (255, Some(256), Some(255)), (4096, None, Some(16))] {
            let ikm = mccore::fill(seed, "c01-ikm", ikm_len);
            let info = info_len.map(|n| mccore::fill(seed, "c01-info", n));
            let dst = dst_len.map(|n| mccore::fill(seed, "c01-dst", n));
            let id = format!("kg(ikm{},info{:?},dst{:?})", ikm_len, info_len, dst_len);
            env.ctx.step();
            match z(s).keygen(&ikm, info.as_deref(), dst.as_deref()) {
                mccore::O::Ok((sk, pk)) => {
                    let k = Key { id: Box::leak(id.clone().into_boxed_str()), suite: s, sk, pk };
                    for (hn, h) in hdr_small(seed).into_iter().filter(|x| x.0 != "empty") { for (ln, l) in lists.iter().filter(|l| l.1.len() <= 1).take(3) {
                        roots.push(Root { id: format!("{}/{}/{}/{}", s.name(), k.id, hn, ln), suite: s, key: k.clone(), hname: hn.clone(), header: h.clone(), msgs: l.clone(), shape: ln.clone() });
                    } }
                }
                o => env.ctx.violation("C01:keygen-refuses-valid-key-material", &format!("KeyGen(ikm {} octets, key_info {:?} octets, key_dst {:?} octets) must succeed: {}", ikm_len, info_len, dst_len, o.describe()), env.case(&format!("{}/{}", s.name(), id), json!({"suite": s.name(), "ikm_len": ikm_len, "key_info_len": info_len, "key_dst_len": dst_len}))),
            }
        }
    }
    env.ctx.set_rule("keys from the implementation's KeyGen at argument boundaries (ikm 32/33/64/255/4096, key_info None/0/1/255/256/65534/65535, key_dst None/1/16/255) sign and verify; roots = suites x keys{k0,k1,k2} x 7 headers x ALL message tuples of length 0..3 over the letter alphabet, plus L in {4..16,255,256,257[,1000,4096]} x {none,16B} x {k0,k1}; moves: sign -> verify -> to_bytes/from_bytes -> verify, reference sign/verify, None/empty square; a state is (suite,key,header,messages); non-trivial = a signature was produced by the implementation and compared with the reference bytes");
    env.ctx.extra("deviation_bound_completed", json!(0));
    crate::hist::explore_families(env, &['S'], "signing histories");
    crate::hist::explore_families(env, &['V'], "verification histories");
    par_for(&roots, |_, r| {
        if !env.want(&r.id) || env.ctx.out_of_time() {
            return;
        }
        let zk = z(r.suite);
        let k = &r.key;
        let det = json!({"suite": r.suite.name(), "key": k.id, "header": r.hname, "shape": r.shape, "messages": hexv(&r.msgs[..r.msgs.len().min(8)]), "L": r.msgs.len()});
        env.ctx.state(&[r.suite.name().as_bytes(), k.id.as_bytes(), r.hname.as_bytes(), &msgs_digest(&r.msgs)]);
        let sig = zk.sign(&k.sk, &k.pk, oh(&r.header), Some(&r.msgs));
        if !expect(env, &r.id, "sign", &sig, true, "sign", det.clone()) {
            env.ctx.trace();
            return;
        }
        let sig = sig.ok().unwrap();
        // reference bytes
        let pk96: [u8; 96] = k.pk.clone().try_into().unwrap();
        let sk = refbbs::octets_to_scalar_strict(&k.sk).unwrap();
        let rsig = refbbs::sign(r.suite, &sk, &pk96, hb(&r.header), &r.msgs);
        match &rsig {
            Ok(b) if b.to_vec() == sig => env.ctx.class("sig-bytes=reference"),
            Ok(b) => env.ctx.violation("C01:sign:bytes-differ-from-reference", "signature bytes differ from the reference implementation", env.case(&r.id, json!({"base": det, "impl": hex::encode(&sig), "ref": hex::encode(b)}))),
            Err(e) => env.machinery(&format!("reference sign failed on {}: {}", r.id, e)),
        }
        if sig.len() != 80 {
            env.ctx.violation("C01:sign:length", "signature is not 80 octets", env.case(&r.id, det.clone()));
        }
        let v = zk.verify(&k.pk, &sig, oh(&r.header), Some(&r.msgs));
        expect(env, &r.id, "verify(sign(..))", &v, true, "verify", det.clone());
        let rt = zk.dec_sig(&sig);
        env.ctx.step();
        if rt.clone().ok().as_deref() != Some(&sig[..]) {
            env.ctx.violation("C01:roundtrip", &format!("from_bytes(to_bytes(sig)) != sig: {}", rt.describe()), env.case(&r.id, det.clone()));
        }
        if refbbs::verify(r.suite, &k.pk, &sig, hb(&r.header), &r.msgs).is_err() {
            env.ctx.violation("C01:reference-rejects", "reference verifier rejects the implementation's signature", env.case(&r.id, det.clone()));
        }
        // None/empty square
        if r.msgs.is_empty() {
            let a = zk.sign(&k.sk, &k.pk, oh(&r.header), None);
            env.ctx.step();
            if a.clone().ok().as_deref() != Some(&sig[..]) {
                env.ctx.violation("C01:none-vs-empty:messages:sign", &format!("sign(messages=None) differs from sign(Some(&[])): {}", a.describe()), env.case(&r.id, det.clone()));
            }
            let v = zk.verify(&k.pk, &sig, oh(&r.header), None);
            expect(env, &r.id, "verify(messages=None)", &v, true, "none-vs-empty:messages:verify", det.clone());
            env.ctx.class("none=empty messages");
        }
        if hb(&r.header).is_empty() {
            let alt: Option<Vec<u8>> = if r.header.is_none() { Some(vec![]) } else { None };
            let a = zk.sign(&k.sk, &k.pk, oh(&alt), Some(&r.msgs));
            env.ctx.step();
            if a.clone().ok().as_deref() != Some(&sig[..]) {
                env.ctx.violation("C01:none-vs-empty:header:sign", &format!("sign(header None) differs from sign(header empty): {}", a.describe()), env.case(&r.id, det.clone()));
            }
            let v = zk.verify(&k.pk, &sig, oh(&alt), Some(&r.msgs));
            expect(env, &r.id, "verify(header None<->empty)", &v, true, "none-vs-empty:header:verify", det.clone());
            env.ctx.class("none=empty header");
        }
        env.ctx.class("complete");
        env.ctx.trace();
        env.ctx.sample(det);
    });
}
