//! C11 — domain separation between ciphersuites, interfaces and sizes: every artefact kind x producing
//! (suite, interface) x every foreign (suite', interface') must be refused; generator prefix law for every k <= N and
//! set algebra (duplicate-free, identity-free, P1-free, g1-free, pairwise disjoint across suites and api_ids).
#![allow(non_snake_case)]
use crate::c10::api_ids;
use crate::common::*;
use mccore::{par_for, O};
use refbbs::Suite;
use serde_json::json;
use std::collections::HashMap;

pub fn run(env: &Env) {
    let seed = env.ctx.seed;
    let nmax = if env.thorough() { 1100 } else { 300 };
    env.ctx.set_rule("(a) artefact replay: kinds {signature, proof, commitment, blind signature without/with commitment, blind proof} x producing suite x shapes (L, M) in [0..=2]^2 x header {none,16B}: the native verifier accepts (control) and EVERY foreign (suite', interface') verifier / signer refuses, including re-interpretations (blind artefact with concatenated message lists through the plain interface, plain artefact through the blind interface with L in {total, total-1, 0}); (b) generators: for 7 api_ids x 2 suites, create(N)[..k] = create(k) for EVERY k <= N = 300 (thorough 1100); each N-set duplicate-free, identity-free, P1-free, g1-free; sets of different (suite, api_id) pairwise disjoint; None == empty api_id. State = (artefact, foreign verifier) or (api_id, k); non-trivial = a real verifier/generator call was judged.");
    #[derive(Clone)]
    enum Job { Replay(Suite, usize, usize, usize), Prefix(Suite, usize), Sets, Prepare(Suite) }
    let mut jobs: Vec<(String, Job)> = Vec::new();
    for s in suites() {
        for l in 0..=2usize { for m in 0..=2usize { for h in 0..2usize { jobs.push((format!("{}/replay/L{}/M{}/h{}", s.name(), l, m, h), Job::Replay(s, l, m, h))); } } }
        for a in 0..7 { jobs.push((format!("{}/prefix/api{}", s.name(), a), Job::Prefix(s, a))); }
    }
    jobs.push(("generator-sets".into(), Job::Sets));
    for s in suites() { jobs.push((format!("{}/prepare_parameters", s.name()), Job::Prepare(s))); }
    crate::hist::explore_families(env, &['G'], "generator histories");
    par_for(&jobs, |_, (id, job)| {
        if !env.want(id) || env.ctx.out_of_time() { return; }
        match job.clone() {
            Job::Replay(s, l, m, hi) => {
                let o = s.other();
                let (zk, zo) = (z(s), z(o));
                let k = key(s, "k0");
                // the same secret scalar used as a key under the other suite is the strongest foreign verifier
                let header: Option<Vec<u8>> = if hi == 0 { None } else { Some(mccore::fill(seed, "c11h", 16)) };
                let (h, ph) = (oh(&header), oh(&header));
                let msgs = distinct_msgs(seed, "c11m", l);
                let cms = distinct_msgs(seed, "c11c", m);
                let all: Vec<Vec<u8>> = msgs.iter().chain(cms.iter()).cloned().collect();
                let det = json!({"suite": s.name(), "L": l, "M": m, "header": if hi == 0 { "none" } else { "16B" }});
                let check = |name: &str, cls: &str, native: bool, got: O<()>| {
                    if !env.ctx.state(&[id.as_bytes(), name.as_bytes()]) { return; }
                    expect(env, id, name, &got, native, &format!("replay:{}", cls), json!({"base": det, "presentation": name}));
                    env.ctx.class(&format!("{}:{}", cls, if native { "native-accept" } else { "foreign-reject" }));
                    env.ctx.trace();
                };
                // --- plain signature (only distinct when M = 0 to avoid repeating the same case)
                if m == 0 {
                    if let O::Ok(sig) = zk.sign(&k.sk, &k.pk, h, Some(&msgs)) {
                        env.ctx.step();
                        check("plain signature -> native verify", "signature", true, zk.verify(&k.pk, &sig, h, Some(&msgs)));
                        check("plain signature -> other suite verify", "signature", false, zo.verify(&k.pk, &sig, h, Some(&msgs)));
                        for (zn, zz) in [("same suite", zk), ("other suite", zo)] {
                            check(&format!("plain signature -> {} verify_blind_sign(no committed, None)", zn), "signature", false, zz.verify_blind_sign(&k.pk, &sig, h, Some(&msgs), None, None));
                            check(&format!("plain signature -> {} verify_blind_sign(no committed, blind 0)", zn), "signature", false, zz.verify_blind_sign(&k.pk, &sig, h, Some(&msgs), Some(&[]), Some(&[0u8; 32])));
                            if l > 0 { check(&format!("plain signature -> {} verify_blind_sign(last message as committed)", zn), "signature", false, zz.verify_blind_sign(&k.pk, &sig, h, Some(&msgs[..l - 1]), Some(&msgs[l - 1..]), None)); }
                        }
                        for d in mccore::subsets(l) {
                            let dm: Vec<Vec<u8>> = d.iter().map(|&i| msgs[i].clone()).collect();
                            if let O::Ok(p) = zk.proof_gen(&k.pk, &sig, h, ph, Some(&msgs), Some(&d)) {
                                env.ctx.step();
                                check(&format!("plain proof D={:?} -> native proof_verify", d), "proof", true, zk.proof_verify(&k.pk, &p, h, ph, Some(&dm), Some(&d)));
                                check(&format!("plain proof D={:?} -> other suite proof_verify", d), "proof", false, zo.proof_verify(&k.pk, &p, h, ph, Some(&dm), Some(&d)));
                                for (zn, zz) in [("same suite", zk), ("other suite", zo)] { for lv in [Some(l), Some(l.saturating_sub(1)), Some(0), None] {
                                    check(&format!("plain proof D={:?} -> {} blind_proof_verify(L={:?})", d, zn, lv), "proof", false, zz.blind_proof_verify(&k.pk, &p, h, ph, lv, Some(&dm), None, Some(&d), None));
                                    check(&format!("plain proof D={:?} -> {} blind_proof_verify(L={:?}, committed lists Some(empty))", d, zn, lv), "proof", false, zz.blind_proof_verify(&k.pk, &p, h, ph, lv, Some(&dm), Some(&[]), Some(&d), Some(&[])));
                                } }
                            }
                        }
                    }
                }
                // --- commitment, blind signature, blind proof
                let with_commitment: Vec<bool> = if m == 0 { vec![false, true] } else { vec![true] };
                for wc in with_commitment {
                    let (cwp, blind): (Option<Vec<u8>>, Option<[u8; 32]>) = if wc { match zk.commit(Some(&cms)) { O::Ok((c, b)) => (Some(c), Some(b)), _ => continue } } else { (None, None) };
                    env.ctx.step();
                    if let Some(c) = &cwp {
                        check(&format!("commitment(M={}) -> native blind_sign", m), "commitment", true, zk.blind_sign(&k.sk, &k.pk, Some(c), h, Some(&msgs)).map(|_| ()));
                        check(&format!("commitment(M={}) -> other suite blind_sign", m), "commitment", false, zo.blind_sign(&k.sk, &k.pk, Some(c), h, Some(&msgs)).map(|_| ()));
                    }
                    let bsig = match zk.blind_sign(&k.sk, &k.pk, cwp.as_deref(), h, Some(&msgs)) { O::Ok(x) => x, _ => continue };
                    let cm_arg: Option<&[Vec<u8>]> = if wc { Some(&cms) } else { None };
                    let tag = if wc { "blind signature (commitment)" } else { "blind signature (no commitment)" };
                    check(&format!("{} -> native verify_blind_sign", tag), "blind-signature", true, zk.verify_blind_sign(&k.pk, &bsig, h, Some(&msgs), cm_arg, blind.as_ref()));
                    check(&format!("{} -> other suite verify_blind_sign", tag), "blind-signature", false, zo.verify_blind_sign(&k.pk, &bsig, h, Some(&msgs), cm_arg, blind.as_ref()));
                    for (zn, zz) in [("same suite", zk), ("other suite", zo)] {
                        check(&format!("{} -> {} plain verify(signer messages)", tag, zn), "blind-signature", false, zz.verify(&k.pk, &bsig, h, Some(&msgs)));
                        check(&format!("{} -> {} plain verify(signer + committed messages)", tag, zn), "blind-signature", false, zz.verify(&k.pk, &bsig, h, Some(&all)));
                    }
                    for d in mccore::subsets(l) { for dc in mccore::subsets(if wc { m } else { 0 }) {
                        let dm: Vec<Vec<u8>> = d.iter().map(|&i| msgs[i].clone()).collect();
                        let dcm: Vec<Vec<u8>> = dc.iter().map(|&i| cms[i].clone()).collect();
                        let p = match zk.blind_proof_gen(&k.pk, &bsig, h, ph, Some(&msgs), cm_arg, Some(&d), if wc { Some(&dc) } else { None }, blind.as_ref()) { O::Ok(p) => p, _ => continue };
                        env.ctx.step();
                        let tagp = format!("blind proof ({}) D={:?} Dc={:?}", if wc { "commitment" } else { "no commitment" }, d, dc);
                        check(&format!("{} -> native blind_proof_verify", tagp), "blind-proof", true, zk.blind_proof_verify(&k.pk, &p, h, ph, Some(l), Some(&dm), Some(&dcm), Some(&d), Some(&dc)));
                        check(&format!("{} -> other suite blind_proof_verify", tagp), "blind-proof", false, zo.blind_proof_verify(&k.pk, &p, h, ph, Some(l), Some(&dm), Some(&dcm), Some(&d), Some(&dc)));
                        let cat: Vec<Vec<u8>> = dm.iter().chain(dcm.iter()).cloned().collect();
                        let ci: Vec<usize> = d.iter().copied().chain(dc.iter().map(|j| j + l + 1)).collect();
                        for (zn, zz) in [("same suite", zk), ("other suite", zo)] { check(&format!("{} -> {} plain proof_verify(concatenated)", tagp, zn), "blind-proof", false, zz.proof_verify(&k.pk, &p, h, ph, Some(&cat), Some(&ci))); }
                    } }
                }
                if l == 1 && m == 1 && hi == 1 { env.ctx.sample(json!({"root": id, "base": det})); }
            }
            Job::Prefix(s, a) => {
                let (an, api) = api_ids(s, seed)[a].clone();
                let zk = z(s);
                let full = match zk.generators(nmax, api.as_deref()) { O::Ok(g) => g, o => { env.ctx.violation("C11:generators:create-failed", &o.describe(), env.case(id, json!({"api_id": an}))); return; } };
                env.ctx.step();
                for kk in 0..=nmax {
                    env.ctx.state(&[id.as_bytes(), &(kk as u32).to_be_bytes()]);
                    let g = zk.generators(kk, api.as_deref());
                    env.ctx.step();
                    match g {
                        O::Ok(g) if g[..] == full[..kk] => env.ctx.class("prefix-law:holds"),
                        O::Ok(g) => { let first = g.iter().zip(full.iter()).position(|(x, y)| x != y).unwrap_or(g.len().min(kk)); env.ctx.violation("C11:generators:prefix-law", &format!("create({}, {})[{}] differs from create({}, {})[{}]", kk, an, first, nmax, an, first), env.case(id, json!({"suite": s.name(), "api_id": an, "k": kk, "n": nmax}))); }
                        o => env.ctx.violation("C11:generators:create-failed", &o.describe(), env.case(id, json!({"api_id": an, "k": kk}))),
                    }
                    env.ctx.trace();
                }
            }
            Job::Prepare(s) => {
                // the public helper that assembles signer generators ++ blind generators: for every api_id form the list must be the
                // reference construction create(ng, api) ++ create(nbg, "BLIND_" || api), duplicate-free, and None == Some(empty)
                let zk = z(s);
                for (an, api) in api_ids(s, seed) { for ng in 1..=3usize { for nbg in 1..=3usize {
                    env.ctx.state(&[id.as_bytes(), an.as_bytes(), &[ng as u8, nbg as u8]]);
                    let got = zk.prepare_parameters(Some(&[]), Some(&[]), ng, nbg, None, api.as_deref()); env.ctx.step();
                    let a = api.clone().unwrap_or_default();
                    let want: Vec<[u8; 48]> = refbbs::create_generators(s, ng, &a).iter().chain(refbbs::create_generators(s, nbg, &refbbs::cat(&[b"BLIND_", &a])).iter()).map(|g| refbbs::g1_bytes(g)).collect();
                    match got {
                        O::Ok((_, g)) => {
                            if g != want { env.ctx.violation("C11:prepare_parameters:generators-differ", &format!("prepare_parameters(api_id={}, {}, {}) does not return create(n, api) ++ create(m, BLIND_||api)", an, ng, nbg), env.case(id, json!({"suite": s.name(), "api_id": an, "generators_number": ng, "blind_generators_number": nbg}))); }
                            let mut u = g.clone(); u.sort(); u.dedup(); if u.len() != g.len() { env.ctx.violation("C11:prepare_parameters:shared-generator", &format!("prepare_parameters(api_id={}, {}, {}) returns a list with a repeated point: the two interfaces' generator sets overlap", an, ng, nbg), env.case(id, json!({"suite": s.name(), "api_id": an}))); }
                        }
                        o => env.ctx.violation("C11:prepare_parameters:failed", &o.describe(), env.case(id, json!({"api_id": an}))),
                    }
                    env.ctx.class("prepare_parameters"); env.ctx.trace();
                } } }
            }
            Job::Sets => {
                let mut owner: HashMap<[u8; 48], String> = HashMap::new();
                let g1 = refbbs::g1_bytes(&refbbs::g1_generator());
                let mut identity = [0u8; 48]; identity[0] = 0xc0;
                let mut lists: Vec<(String, Vec<u8>, Vec<[u8; 48]>)> = Vec::new();
                let long_ids = |seed: u64| -> Vec<(String, Option<Vec<u8>>)> {
                    // api_ids longer than what fits a 255-octet tag (the expander hashes oversize tags): pairs that share a long prefix
                    let base = mccore::fill(seed, "api-long", 300);
                    let mut v = Vec::new();
                    for (nm, len, last) in [("237B", 237usize, 0u8), ("238B-a", 238, 1), ("238B-b", 238, 2), ("300B-a", 300, 1), ("300B-b", 300, 2), ("236B", 236, 0)] { let mut x = base[..len].to_vec(); if last > 0 { let n = x.len(); x[n - 1] = last; } v.push((nm.to_string(), Some(x))); }
                    v
                };
                for s in suites() { for (an, api, nmax) in api_ids(s, seed).into_iter().map(|(a, b)| (a, b, nmax)).chain(long_ids(seed).into_iter().map(|(a, b)| (a, b, 8usize))) { if let O::Ok(g) = z(s).generators(nmax, api.as_deref()) { env.ctx.step(); lists.push((format!("{}/{}", s.name(), an), [s.name().as_bytes(), b"/", api.as_deref().unwrap_or(b"")].concat(), g)); } } }
                for (name, real_id, g) in &lists {
                    env.ctx.state(&[b"sets", name.as_bytes()]);
                    let p1 = if name.starts_with("sha256") { z(Suite::Sha256).p1() } else { z(Suite::Shake256).p1() };
                    for (i, p) in g.iter().enumerate() {
                        if *p == identity { env.ctx.violation("C11:generators:identity", &format!("{}[{}] is the identity", name, i), env.case(id, json!({"list": name, "i": i}))); }
                        if *p == p1 { env.ctx.violation("C11:generators:P1", &format!("{}[{}] equals P1", name, i), env.case(id, json!({"list": name, "i": i}))); }
                        if *p == g1 { env.ctx.violation("C11:generators:g1", &format!("{}[{}] equals the fixed base point", name, i), env.case(id, json!({"list": name, "i": i}))); }
                        let me = format!("{}#{}", hex::encode(real_id), i);
                        if let Some(prev) = owner.get(p) {
                            // the same (suite, api_id) under two names (None == empty) must coincide position by position; anything else is a collision
                            let same_list = prev.split('#').next() == me.split('#').next();
                            if !(same_list && *prev == me) { env.ctx.violation(if same_list { "C11:generators:duplicate" } else { "C11:generators:shared-between-domains" }, &format!("{}[{}] also occurs as {}", name, i, prev), env.case(id, json!({"list": name, "i": i}))); }
                        } else { owner.insert(*p, me); }
                    }
                    env.ctx.class("set-algebra"); env.ctx.trace();
                }
                // None == empty
                for s in suites() { let a = z(s).generators(16, None).ok(); let b = z(s).generators(16, Some(b"")).ok(); if a != b { env.ctx.violation("C11:generators:none-vs-empty", "create(n, None) != create(n, Some(empty))", env.case(id, json!({"suite": s.name()}))); } }
                env.ctx.extra("distinct_generator_points", json!(owner.len()));
            }
        }
    });
}
