//! C08 — untrusted input never crashes a BBS verifier, signer or holder: exhaustive length sweeps x content classes on
//! every decoder, JSON leaf substitutions, all index lists of length <= 3 over the boundary alphabet, count alphabets;
//! executed in isolated worker processes with CPU / allocation budgets and hang detection.
#![allow(non_snake_case)]
use crate::common::*;
use crate::sweep::*;
use crate::worker::{base, Base};
use crate::zk::{Kind, KINDS};
use mccore::fill;
use refbbs::Suite;
use serde_json::{json, Value};

fn classes(seed: u64, honest: &[u8], n: usize, tag: &str) -> Vec<(&'static str, Vec<u8>)> {
    let mut v: Vec<(&'static str, Vec<u8>)> = Vec::new();
    v.push(("zeros", vec![0u8; n]));
    v.push(("ff", vec![0xffu8; n]));
    let mut id = vec![0u8; n]; if n > 0 { id[0] = 0xc0; } v.push(("identity-pattern", id));
    let mut h: Vec<u8> = honest.iter().copied().take(n).collect(); h.resize(n, 0); v.push(("honest-truncated-or-zero-extended", h));
    let mut h2: Vec<u8> = honest.iter().copied().take(n).collect(); h2.resize(n, 0xff); v.push(("honest-prefix-then-ff", h2));
    v.push(("random", fill(seed, &format!("c08-{}-{}", tag, n), n)));
    v
}

pub fn leaf_substitutions() -> Vec<(&'static str, Value)> {
    vec![
        ("wrong-type-number", json!(7)), ("wrong-type-null", Value::Null), ("wrong-type-array", json!([1, 2])), ("empty-string", json!("")), ("odd-length-hex", json!("abc")), ("non-hex", json!("zz")),
        ("2MB-hex", json!("ab".repeat(1 << 20))), ("identity-g1", json!(format!("c0{}", "00".repeat(47)))), ("identity-g2", json!(format!("c0{}", "00".repeat(95)))),
        ("non-canonical-scalar", json!("ff".repeat(32))), ("array-of-1e5-zeros", json!(vec![0; 100000])), ("nested-object", json!({"a": {"b": 1}})),
    ]
}

/// every leaf path of a JSON value
pub fn leaf_paths(v: &Value, pre: Vec<String>, out: &mut Vec<Vec<String>>) {
    match v {
        Value::Object(m) => for (k, x) in m { let mut p = pre.clone(); p.push(k.clone()); leaf_paths(x, p, out); },
        Value::Array(a) => { for (i, x) in a.iter().enumerate() { let mut p = pre.clone(); p.push(i.to_string()); leaf_paths(x, p, out); } if a.is_empty() { out.push(pre); } }
        _ => out.push(pre),
    }
}
pub fn set_path(v: &mut Value, path: &[String], new: Option<Value>) {
    if path.len() == 1 {
        match v { Value::Object(m) => { match new { Some(n) => { m.insert(path[0].clone(), n); } None => { m.remove(&path[0]); } } } Value::Array(a) => { let i: usize = path[0].parse().unwrap(); match new { Some(n) => a[i] = n, None => { a.remove(i); } } } _ => {} }
        return;
    }
    match v { Value::Object(m) => if let Some(x) = m.get_mut(&path[0]) { set_path(x, &path[1..], new) }, Value::Array(a) => { let i: usize = path[0].parse().unwrap(); set_path(&mut a[i], &path[1..], new) } _ => {} }
}

pub fn honest_octets(b: &Base, k: Kind) -> Vec<u8> {
    match k { Kind::Pk => b.key.pk.clone(), Kind::Sk => b.key.sk.clone(), Kind::Sig => b.sig.clone(), Kind::BlindSig => b.bsig.clone(), Kind::Proof => b.proof.clone(), Kind::Commitment => b.cwp.clone() }
}
pub fn kind_name(k: Kind) -> &'static str { match k { Kind::Pk => "pk", Kind::Sk => "sk", Kind::Sig => "sig", Kind::BlindSig => "bsig", Kind::Proof => "proof", Kind::Commitment => "commitment" } }

pub fn run(env: &Env) {
    let seed = env.ctx.seed;
    let maxlen = if env.thorough() { 2048 } else { 1024 };
    env.ctx.set_rule("every 32-octet scalar slot of the honest signature / proof / blind proof / commitment set to each of {0, 1, r-1, r, r+1, -sk, -sk+-1, sk} and handed to its consumers (incl. update_signature and verify); every byte length 0..=1024 (thorough 0..=2048) x 6 content classes (zeros, ff, identity pattern, honest encoding truncated/zero-extended, honest prefix then ff, seeded random) x 16 byte-taking entry points (incl. proof / blind proof verification with nothing disclosed, None and empty forms) (8 decoders, deserialize_and_validate_commit, proof_gen(signature bytes), verify(pk bytes), blind_sign(commitment bytes), proof_verify(proof bytes), blind_proof_verify(proof bytes)); JSON: every leaf of the honest JSON of 6 types x 12 substitutions + removal; index lists: ALL lists of length <= 3 over {0,1,L-1,L,L+1,2^32,2^63,usize::MAX-1,usize::MAX} for proof_gen / proof_verify / blind_proof_gen / blind_proof_verify (each side), message-count mismatches, L and n alphabets for blind_proof_verify / update_signature; both suites. Oracle: the call returns Ok or Err (no panic, no abort, no hang), CPU <= 250 ms + 20 us/byte + 2 ms/count, allocation <= 256 KiB + 256 B/byte + 8 KiB/count. State = one (entry point, input) case; all are non-trivial (each reaches the real entry point).");
    env.ctx.assume("budgets are one to two orders of magnitude above the measured honest costs so that timing noise cannot raise an alarm; the defects they exist for exceed them by more than six orders");
    let mut cases: Vec<Case> = Vec::new();
    for s in suites() {
        let b = base(s);
        let sn = s.name();
        // 1. byte-taking entry points
        let entries: Vec<(&str, Vec<u8>)> = vec![
            ("dec_pk", b.key.pk.clone()), ("dec_sk", b.key.sk.clone()), ("dec_sig", b.sig.clone()), ("dec_blind_sig", b.bsig.clone()), ("dec_proof", b.proof.clone()), ("dec_zkpok", b.cwp[48..].to_vec()),
            ("dec_commitment", b.cwp.clone()), ("dec_blind_factor", b.blind.to_vec()), ("davc", b.cwp.clone()), ("proof_gen_sig", b.sig.clone()), ("verify_pk", b.key.pk.clone()), ("blind_sign_cwp", b.cwp.clone()),
            ("proof_verify_bytes", b.proof.clone()), ("blind_proof_verify_bytes", b.bproof.clone()),
        ];
        for (f, honest) in &entries {
            for n in 0..=maxlen {
                for (cn, bytes) in classes(seed, honest, n, f) {
                    if n == 0 && cn != "zeros" { continue; }
                    // blind_sign derives the number of blind generators from the commitment length: that count is legitimate work
                    let count = if *f == "blind_sign_cwp" || *f == "davc" || f.ends_with("_bytes") { n / 32 + 4 } else { 0 };
                    cases.push(Case { case: json!({"f": f, "s": sn, "b": hex::encode(&bytes), "class": cn, "len": n}), class: format!("{}:{}", f, cn), bytes: n, count, expect_ok: None });
                }
            }
        }
        // 1a. every 32-octet scalar slot of an honest encoding set to each special scalar (0, 1, r - 1, r, r + 1, -sk, -sk +- 1):
        //     values that make an inversion, a subtraction or a comparison inside the consumer degenerate
        {
            use bls12_381_plus::Scalar;
            let sk = refbbs::octets_to_scalar_strict(&b.key.sk).unwrap();
            let r_minus_1 = (-Scalar::ONE).to_be_bytes();
            let mut r_bytes = r_minus_1; { let mut i = 31; loop { let (v, c) = r_bytes[i].overflowing_add(1); r_bytes[i] = v; if !c || i == 0 { break; } i -= 1; } }
            let mut r_plus_1 = r_bytes; { let mut i = 31; loop { let (v, c) = r_plus_1[i].overflowing_add(1); r_plus_1[i] = v; if !c || i == 0 { break; } i -= 1; } }
            let specials: Vec<(&str, [u8; 32])> = vec![("0", [0u8; 32]), ("1", Scalar::ONE.to_be_bytes()), ("r-1", r_minus_1), ("r", r_bytes), ("r+1", r_plus_1), ("-sk", (-sk).to_be_bytes()), ("-sk+1", (-sk + Scalar::ONE).to_be_bytes()), ("-sk-1", (-sk - Scalar::ONE).to_be_bytes()), ("sk", sk.to_be_bytes())];
            let slotted: Vec<(&str, &Vec<u8>, usize)> = vec![("update_signature_sig", &b.sig, 48), ("verify_sig", &b.sig, 48), ("proof_gen_sig", &b.sig, 48), ("dec_sig", &b.sig, 48), ("proof_verify_bytes", &b.proof, 144), ("blind_proof_verify_bytes", &b.bproof, 144), ("dec_proof", &b.proof, 144), ("blind_sign_cwp", &b.cwp, 48), ("davc", &b.cwp, 48), ("dec_commitment", &b.cwp, 48)];
            for (f, honest, first) in slotted {
                let mut off = first;
                while off + 32 <= honest.len() {
                    for (sn_, sv) in &specials {
                        let mut bytes = honest.clone(); bytes[off..off + 32].copy_from_slice(sv);
                        cases.push(Case { case: json!({"f": f, "s": sn, "b": hex::encode(&bytes), "class": format!("scalar@{} := {}", off, sn_), "len": bytes.len()}), class: format!("{}:special-scalar", f), bytes: bytes.len(), count: bytes.len() / 32 + 4, expect_ok: None });
                    }
                    off += 32;
                }
            }
        }
        // 1b. verification with NOTHING disclosed (None and empty forms) on every length / class, plus honest zero-message proofs
        let k0 = &b.key;
        let sig0 = z(s).sign(&k0.sk, &k0.pk, Some(&b.header), Some(&[])).ok().unwrap_or_default();
        let proof0 = z(s).proof_gen(&k0.pk, &sig0, Some(&b.header), Some(&b.ph), Some(&[]), Some(&[])).ok().unwrap_or_default();
        for (f, honest) in [("proof_verify_bytes_nodisclosure", &proof0), ("blind_proof_verify_bytes_nodisclosure", &proof0)] { for n in 0..=maxlen.min(512) { for (cn, bytes) in classes(seed, honest, n, f) {
            if n == 0 && cn != "zeros" { continue; }
            for none in [false, true] { cases.push(Case { case: json!({"f": f, "s": sn, "b": hex::encode(&bytes), "class": cn, "len": n, "none": none}), class: format!("{}:{}", f, cn), bytes: n, count: n / 32 + 4, expect_ok: if n == honest.len() && cn == "honest-truncated-or-zero-extended" && f.starts_with("proof_verify") { Some(true) } else { None } }); }
        } } }
        // 2. JSON leaves
        let zk = z(s);
        for k in KINDS {
            let hj = match zk.json_of(k, &honest_octets(&b, k)).ok() { Some(j) => j, None => { env.ctx.note(&format!("no JSON for {:?}", k)); continue; } };
            let v: Value = serde_json::from_str(&hj).unwrap();
            let mut paths = Vec::new();
            leaf_paths(&v, vec![], &mut paths);
            if paths.iter().any(|p| p.is_empty()) || paths.is_empty() { paths = vec![]; }
            let whole: Vec<(String, Value)> = leaf_substitutions().into_iter().map(|(n, x)| (n.to_string(), x)).collect();
            for (n, x) in &whole { let j = x.to_string(); cases.push(Case { case: json!({"f": "json", "s": sn, "kind": kind_name(k), "j": j, "edit": format!("whole value := {}", n)}), class: format!("json:{}:whole", kind_name(k)), bytes: j.len(), count: 0, expect_ok: None }); }
            // the serde enums: every way of naming a variant the type offers (and some it does not), with and without payload;
            // whatever decodes is handed to its consumers (verify, proof_verify, blind_proof_verify, to_bytes)
            if let Some((tag, inner)) = v.as_object().filter(|m| m.len() == 1).and_then(|m| m.iter().next()).map(|(k, x)| (k.clone(), x.clone())) {
                let mut docs: Vec<(String, Value)> = vec![("honest".into(), v.clone())];
                for name in ["_Unreachable", "CL03", "BBSplus", "bbsplus", ""] {
                    for (pn, pay) in [("null", Value::Null), ("honest-payload", inner.clone()), ("empty-array", json!([])), ("empty-object", json!({}))] {
                        if name == tag && pn == "honest-payload" { continue; }
                        docs.push((format!("variant {:?} with {}", name, pn), json!({name: pay})));
                    }
                    docs.push((format!("bare string {:?}", name), json!(name)));
                    docs.push((format!("honest plus second key {:?}", name), { let mut m = v.as_object().unwrap().clone(); m.insert(name.to_string(), Value::Null); Value::Object(m) }));
                }
                for (n, d) in docs { let j = d.to_string(); cases.push(Case { case: json!({"f": "json_use", "s": sn, "kind": kind_name(k), "j": j, "edit": n}), class: format!("json-use:{}:variant", kind_name(k)), bytes: j.len(), count: 4, expect_ok: None }); }
            }
            for p in &paths {
                for (n, x) in leaf_substitutions() { let mut w = v.clone(); set_path(&mut w, p, Some(x)); let j = w.to_string(); if j.len() < 4096 { cases.push(Case { case: json!({"f": "json_use", "s": sn, "kind": kind_name(k), "j": j, "edit": format!("{} := {}", p.join("/"), n)}), class: format!("json-use:{}:leaf", kind_name(k)), bytes: j.len(), count: 4, expect_ok: None }); } }
                for (n, x) in leaf_substitutions() { let mut w = v.clone(); set_path(&mut w, p, Some(x)); let j = w.to_string(); cases.push(Case { case: json!({"f": "json", "s": sn, "kind": kind_name(k), "j": j, "edit": format!("{} := {}", p.join("/"), n)}), class: format!("json:{}:leaf", kind_name(k)), bytes: j.len(), count: 0, expect_ok: None }); }
                let mut w = v.clone(); set_path(&mut w, p, None); let j = w.to_string();
                cases.push(Case { case: json!({"f": "json", "s": sn, "kind": kind_name(k), "j": j, "edit": format!("{} removed", p.join("/"))}), class: format!("json:{}:leaf-removed", kind_name(k)), bytes: j.len(), count: 0, expect_ok: None });
            }
        }
        // 3. index lists and counts
        let vals = |l: usize| -> Vec<usize> { let mut v = vec![0, 1, l.wrapping_sub(1), l, l + 1, 1 << 32, 1 << 63, usize::MAX - 1, usize::MAX]; v.dedup(); v };
        let lists = |l: usize| -> Vec<Vec<usize>> { let a = vals(l); let mut out: Vec<Vec<usize>> = vec![]; for len in 0..=3 { for t in mccore::tuples(a.len(), len) { out.push(t.iter().map(|&i| a[i]).collect()); } } out };
        for idx in lists(3) {
            for nm in [idx.len(), idx.len() + 1, idx.len().saturating_sub(1)] {
                cases.push(Case { case: json!({"f": "proof_verify_idx", "s": sn, "idx": idx, "nm": nm}), class: "proof_verify:index-list".into(), bytes: 8 * idx.len() + 16 * nm, count: idx.len() + 4, expect_ok: None });
            }
            for nm in [3usize, 2, 4, 0] {
                if nm != 3 && idx.len() > 1 { continue; }
                cases.push(Case { case: json!({"f": "proof_gen_idx", "s": sn, "idx": idx, "nm": nm}), class: "proof_gen:index-list".into(), bytes: 8 * idx.len() + 16 * nm, count: nm + 4, expect_ok: None });
            }
        }
        // 3a. the same entry points with some of their optional lists ABSENT while their partners are present (None vs Some mismatch)
        for idx in lists(3).into_iter().filter(|l| l.len() <= 2) {
            for nn in ["m", "i", "mi"] {
                cases.push(Case { case: json!({"f": "proof_verify_idx", "s": sn, "idx": idx, "nm": idx.len().max(1), "none": nn}), class: "proof_verify:absent-list".into(), bytes: 8 * idx.len() + 32, count: idx.len() + 4, expect_ok: None });
                cases.push(Case { case: json!({"f": "proof_gen_idx", "s": sn, "idx": idx, "nm": 3, "none": nn}), class: "proof_gen:absent-list".into(), bytes: 8 * idx.len() + 48, count: 7, expect_ok: None });
            }
            for nn in ["m", "i", "c", "j", "mc", "ij", "mj", "ci", "mcij"] {
                for (a, b_) in [(idx.clone(), vec![0usize]), (vec![0usize], idx.clone()), (idx.clone(), idx.clone())] {
                    cases.push(Case { case: json!({"f": "blind_proof_verify_idx", "s": sn, "l": 2, "idx": a, "cidx": b_, "nm": a.len().max(1), "ncm": b_.len().max(1), "none": nn}), class: "blind_proof_verify:absent-list".into(), bytes: 8 * (a.len() + b_.len()) + 64, count: a.len() + b_.len() + 6, expect_ok: None });
                    cases.push(Case { case: json!({"f": "blind_proof_gen_idx", "s": sn, "idx": a, "cidx": b_, "nm": 2, "ncm": 2, "none": nn}), class: "blind_proof_gen:absent-list".into(), bytes: 8 * (a.len() + b_.len()) + 64, count: 10, expect_ok: None });
                }
            }
        }
        for idx in lists(2) {
            cases.push(Case { case: json!({"f": "blind_proof_gen_idx", "s": sn, "idx": idx, "cidx": [0], "nm": 2, "ncm": 2}), class: "blind_proof_gen:index-list".into(), bytes: 8 * idx.len() + 64, count: 8, expect_ok: None });
            cases.push(Case { case: json!({"f": "blind_proof_gen_idx", "s": sn, "idx": [0], "cidx": idx, "nm": 2, "ncm": 2}), class: "blind_proof_gen:committed-index-list".into(), bytes: 8 * idx.len() + 64, count: 8, expect_ok: None });
            cases.push(Case { case: json!({"f": "blind_proof_verify_idx", "s": sn, "l": 2, "idx": idx, "cidx": [0], "nm": idx.len(), "ncm": 1}), class: "blind_proof_verify:index-list".into(), bytes: 8 * idx.len() + 64, count: idx.len() + 8, expect_ok: None });
            cases.push(Case { case: json!({"f": "blind_proof_verify_idx", "s": sn, "l": 2, "idx": [0], "cidx": idx, "nm": 1, "ncm": idx.len()}), class: "blind_proof_verify:committed-index-list".into(), bytes: 8 * idx.len() + 64, count: idx.len() + 8, expect_ok: None });
        }
        let short: Vec<Vec<usize>> = lists(2).into_iter().filter(|l| l.len() <= 1).collect();
        for a in &short { for c in &short { for l in [Some(0usize), Some(1), Some(2), Some(3), Some(4), Some(5), Some(6), Some(1 << 32), Some(usize::MAX - 1), Some(usize::MAX), None] {
            for (nm, ncm) in [(a.len(), c.len()), (a.len() + 1, c.len()), (a.len(), c.len() + 1), (a.len() + 1, c.len().saturating_sub(1))] {
                cases.push(Case { case: json!({"f": "blind_proof_verify_idx", "s": sn, "l": l, "idx": a, "cidx": c, "nm": nm, "ncm": ncm}), class: "blind_proof_verify:L-and-counts".into(), bytes: 64, count: 16, expect_ok: None });
            }
        } } }
        for i in vals(3) { for n in [0usize, 1, 3, 4, 4096, usize::MAX - 1, usize::MAX] {
            // O(min(i, n)) generator derivation for an in-range index is inherent; an out-of-range index must be refused at once
            // In-range positions beyond 5000 are not in the grid, except (usize::MAX-1, usize::MAX), which no implementation can serve and which
            // therefore must come back promptly either way.
            if i < n && i > 5000 && !(i == usize::MAX - 1) { continue; }
            let count = if i < n { i.min(5000) + 4 } else { 4 };
            let expect_ok = if i == usize::MAX - 1 && i < n { None } else { Some(i < n) };
            cases.push(Case { case: json!({"f": "update_signature", "s": sn, "i": i, "n": n}), class: "update_signature:index-and-count".into(), bytes: 16, count, expect_ok });
        } }
        for nm in [0usize, 1, 2, 3, 4, 64] { cases.push(Case { case: json!({"f": "verify_n", "s": sn, "nm": nm}), class: "verify:message-count".into(), bytes: 16 * nm, count: nm + 4, expect_ok: Some(nm == 3) }); }
        for nm in 0..=3usize { for ncm in 0..=3usize {
            cases.push(Case { case: json!({"f": "verify_blind_sign_n", "s": sn, "nm": nm, "ncm": ncm}), class: "verify_blind_sign:message-counts".into(), bytes: 16 * (nm + ncm), count: nm + ncm + 4, expect_ok: Some(nm == 2 && ncm == 2) });
        } }
        for nm in [0usize, 1, 2, 3, 64] { cases.push(Case { case: json!({"f": "blind_sign_n", "s": sn, "nm": nm}), class: "blind_sign:message-count".into(), bytes: 16 * nm, count: nm + 8, expect_ok: Some(true) }); }
    }
    let _ = Suite::Sha256;
    env.ctx.extra("cases_by_family", json!({"total": cases.len()}));
    if let Some(c) = cases.iter().find(|c| c.case["f"] == "blind_proof_verify_idx" && c.case["l"] == json!(usize::MAX)) { env.ctx.sample(c.case.clone()); }
    if let Some(c) = cases.iter().find(|c| c.case["f"] == "dec_proof" && c.case["len"] == 271) { env.ctx.sample(c.case.clone()); }
    if let Some(c) = cases.iter().find(|c| c.case["f"] == "json" && c.case["edit"].as_str().map(|e| e.contains("identity")).unwrap_or(false)) { let mut x = c.case.clone(); x["j"] = json!("(elided)"); env.ctx.sample(x); }
    if env.want("sweep") { sweep(env, "sweep", &cases); }
}
