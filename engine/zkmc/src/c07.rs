//! C07 — Fresh blinding (form B): all histories of generating operations x thread placements, invariant on every state;
//! plus 64-fold repetition and cross-process runs. Transitions draw real randomness, so a state is its history plus
//! the artefacts that history produced (kept in memory); the history list is the replay artefact.
#![allow(non_snake_case)]
use crate::common::*;
use bls12_381_plus::Scalar;
use mccore::{par_for, tuples, O};
use refbbs::Suite;
use serde_json::{json, Value};
use std::sync::{Arc, Barrier};

pub const OPS: [&str; 9] = ["proof_gen(D=none)", "proof_gen(D=all)", "blind_proof_gen", "commit(M=0)", "commit(M=2)", "BlindFactor::random", "KeyPair::random", "generate_random_secret(32)", "commit(None)"];

#[derive(Clone, Default)]
pub struct Obs {
    /// (label, scalar): blinding scalars recomputed with the witness, responses, challenges, secrets
    pub scalars: Vec<(String, [u8; 32])>,
    pub points: Vec<(String, Vec<u8>)>,
    /// (label, encoded artefact, forbidden windows)
    pub windows: Vec<(String, Vec<u8>, Vec<(String, Vec<u8>)>)>,
    /// transcripts for two-transcript extraction: (witness id, challenge, [(slot, response, secret)])
    pub transcripts: Vec<(String, [u8; 32], Vec<(String, [u8; 32], [u8; 32])>)>,
    pub errors: Vec<String>,
}

fn sc(b: &[u8; 32]) -> Scalar { Scalar::from_be_bytes(b).unwrap() }

struct Fixed { key: Key, msgs: Vec<Vec<u8>>, sig: Vec<u8>, bmsgs: Vec<Vec<u8>>, bcms: Vec<Vec<u8>>, bblind: [u8; 32], bsig: Vec<u8>, header: Vec<u8> }

fn fixed(s: Suite) -> Fixed {
    // fixed inputs shared by every execution. The blind signature needs one commitment; it is made once per process
    // with the reference (deterministic scalars), so that no production randomness is consumed by the set-up.
    let k = key(s, "k0");
    let header = b"c07-header".to_vec();
    let msgs = vec![b"hidden-0".to_vec(), b"hidden-1".to_vec()];
    let pk96: [u8; 96] = k.pk.clone().try_into().unwrap();
    let sk = refbbs::octets_to_scalar_strict(&k.sk).unwrap();
    let sig = refbbs::sign(s, &sk, &pk96, &header, &msgs).unwrap().to_vec();
    let bmsgs = vec![b"signer-0".to_vec()];
    let bcms = vec![b"committed-0".to_vec()];
    let rnd: Vec<Scalar> = (0..3).map(|i| refbbs::random_scalar_from(b"c07", b"setup", i)).collect();
    let (cwp, blind) = refbbs::commit(s, &bcms, &rnd).unwrap();
    let bsig = refbbs::blind_sign(s, &sk, &pk96, &cwp, &header, &bmsgs).unwrap().to_vec();
    Fixed { key: k, msgs, sig, bmsgs, bcms, bblind: blind.to_be_bytes(), bsig, header }
}

fn proof_obs(o: &mut Obs, label: &str, s: Suite, iface_blind: bool, proof: &[u8], e: &Scalar, A: &[u8], hidden: &[(usize, Scalar)], witness: &str) {
    let p = match refbbs::octets_to_proof(proof) { Ok(p) => p, Err(er) => { o.errors.push(format!("{}: proof does not decode: {}", label, er)); return; } };
    let _ = (s, iface_blind);
    o.points.push((format!("{label}.Abar"), refbbs::g1_bytes(&p.Abar).to_vec()));
    o.points.push((format!("{label}.Bbar"), refbbs::g1_bytes(&p.Bbar).to_vec()));
    o.points.push((format!("{label}.D"), refbbs::g1_bytes(&p.D).to_vec()));
    let c = p.c;
    o.scalars.push((format!("{label}.challenge"), c.to_be_bytes()));
    o.scalars.push((format!("{label}.e~ = e^ - e*c"), (p.e_hat - e * c).to_be_bytes()));
    o.scalars.push((format!("{label}.e^"), p.e_hat.to_be_bytes()));
    o.scalars.push((format!("{label}.r1^"), p.r1_hat.to_be_bytes()));
    o.scalars.push((format!("{label}.r3^"), p.r3_hat.to_be_bytes()));
    let mut slots = vec![("e".to_string(), p.e_hat.to_be_bytes(), e.to_be_bytes())];
    let mut wins: Vec<(String, Vec<u8>)> = vec![("e (be)".into(), e.to_be_bytes().to_vec()), ("e (le)".into(), e.to_le_bytes().to_vec()), ("A".into(), A.to_vec())];
    for (j, (pos, m)) in hidden.iter().enumerate() {
        if j >= p.m_hat.len() { o.errors.push(format!("{}: fewer m^ than hidden messages", label)); break; }
        o.scalars.push((format!("{label}.m~_{pos} = m^ - m*c"), (p.m_hat[j] - m * c).to_be_bytes()));
        o.scalars.push((format!("{label}.m^_{pos}"), p.m_hat[j].to_be_bytes()));
        slots.push((format!("m_{pos}"), p.m_hat[j].to_be_bytes(), m.to_be_bytes()));
        wins.push((format!("hidden scalar {pos} (be)"), m.to_be_bytes().to_vec()));
        wins.push((format!("hidden scalar {pos} (le)"), m.to_le_bytes().to_vec()));
    }
    o.windows.push((label.to_string(), proof.to_vec(), wins));
    o.transcripts.push((witness.to_string(), c.to_be_bytes(), slots));
}

/// Execute one generating operation on the REAL code with fixed inputs and report everything a party who knows
/// the witness can compute from the output.
pub fn run_op(s: Suite, op: usize, label: &str) -> Obs {
    let zk = z(s);
    let f = fixed(s);
    let k = &f.key;
    let mut o = Obs::default();
    let (Ab, e) = refbbs::octets_to_signature(&f.sig).map(|(a, e)| (refbbs::g1_bytes(&a).to_vec(), e)).unwrap();
    let api = s.api_id();
    let bapi = s.api_id_blind();
    match op {
        0 | 1 => {
            let d: Vec<usize> = if op == 0 { vec![] } else { vec![0, 1] };
            match zk.proof_gen(&k.pk, &f.sig, Some(&f.header), Some(b"ph"), Some(&f.msgs), Some(&d)) {
                O::Ok(p) => {
                    let ms = refbbs::messages_to_scalars(s, &f.msgs, &api).unwrap();
                    let hidden: Vec<(usize, Scalar)> = (0..2).filter(|i| !d.contains(i)).map(|i| (i, ms[i])).collect();
                    proof_obs(&mut o, label, s, false, &p, &e, &Ab, &hidden, &format!("plain-sig/D={:?}", d));
                }
                other => o.errors.push(format!("{}: {}", label, other.describe())),
            }
        }
        2 => {
            let (bAb, be) = refbbs::octets_to_signature(&f.bsig).map(|(a, e)| (refbbs::g1_bytes(&a).to_vec(), e)).unwrap();
            match zk.blind_proof_gen(&k.pk, &f.bsig, Some(&f.header), Some(b"ph"), Some(&f.bmsgs), Some(&f.bcms), Some(&[]), Some(&[]), Some(&f.bblind)) {
                O::Ok(p) => {
                    let m0 = refbbs::messages_to_scalars(s, &f.bmsgs, &bapi).unwrap()[0];
                    let c0 = refbbs::messages_to_scalars(s, &f.bcms, &bapi).unwrap()[0];
                    let hidden = vec![(0usize, m0), (1, sc(&f.bblind)), (2, c0)];
                    proof_obs(&mut o, label, s, true, &p, &be, &bAb, &hidden, "blind-sig");
                }
                other => o.errors.push(format!("{}: {}", label, other.describe())),
            }
        }
        3 | 4 | 8 => {
            let cms: Vec<Vec<u8>> = if op == 4 { vec![b"cm-0".to_vec(), b"cm-1".to_vec()] } else { vec![] };
            match if op == 8 { zk.commit(None) } else { zk.commit(Some(&cms)) } {
                O::Ok((c, blind)) => {
                    let m = cms.len();
                    if c.len() != 112 + 32 * m { o.errors.push(format!("{}: commitment length {}", label, c.len())); return o; }
                    let rd = |i: usize| -> [u8; 32] { c[48 + 32 * i..80 + 32 * i].try_into().unwrap() };
                    let chal = sc(&rd(m + 1));
                    let b = sc(&blind);
                    o.points.push((format!("{label}.commitment"), c[..48].to_vec()));
                    o.scalars.push((format!("{label}.secret_prover_blind"), blind));
                    o.scalars.push((format!("{label}.challenge"), chal.to_be_bytes()));
                    o.scalars.push((format!("{label}.s^"), rd(0)));
                    o.scalars.push((format!("{label}.s~ = s^ - blind*c"), (sc(&rd(0)) - b * chal).to_be_bytes()));
                    let ms = refbbs::messages_to_scalars(s, &cms, &bapi).unwrap();
                    let mut slots = vec![("blind".to_string(), rd(0), blind)];
                    let mut wins = vec![("secret_prover_blind (be)".to_string(), blind.to_vec())];
                    for j in 0..m {
                        o.scalars.push((format!("{label}.m^_{j}"), rd(1 + j)));
                        o.scalars.push((format!("{label}.m~_{j} = m^ - m*c"), (sc(&rd(1 + j)) - ms[j] * chal).to_be_bytes()));
                        slots.push((format!("cm_{j}"), rd(1 + j), ms[j].to_be_bytes()));
                        wins.push((format!("committed scalar {j} (be)"), ms[j].to_be_bytes().to_vec()));
                    }
                    o.windows.push((label.to_string(), c.clone(), wins));
                    // witness differs per run (fresh blind), so extraction across runs only applies to the message slots
                    o.transcripts.push((format!("commit/M={}", m), chal.to_be_bytes(), slots[1..].to_vec()));
                }
                other => o.errors.push(format!("{}: {}", label, other.describe())),
            }
        }
        5 => match zk.random_blind_factor() { O::Ok(b) => o.scalars.push((format!("{label}.blind_factor"), b)), other => o.errors.push(format!("{}: {}", label, other.describe())) },
        6 => match zk.random_keypair() {
            O::Ok((sk, pk)) => { o.scalars.push((format!("{label}.sk"), sk.try_into().unwrap())); o.points.push((format!("{label}.pk"), pk)); }
            other => o.errors.push(format!("{}: {}", label, other.describe())),
        },
        _ => match zk.random_secret(32) { // op 7
            O::Ok(b) => { let x = refbbs::os2ip_mod_r(&b); o.scalars.push((format!("{label}.secret mod r"), x.to_be_bytes())); o.points.push((format!("{label}.secret bytes"), b)); }
            other => o.errors.push(format!("{}: {}", label, other.describe())),
        },
    }
    o
}

fn merge(a: &mut Obs, b: Obs) {
    a.scalars.extend(b.scalars); a.points.extend(b.points); a.windows.extend(b.windows); a.transcripts.extend(b.transcripts); a.errors.extend(b.errors);
}

fn be_gt_2_128(b: &[u8; 32]) -> bool { b[..16].iter().any(|&x| x != 0) }
fn small_mod_r(d: &Scalar) -> bool {
    // |d| < 2^64 as a centred residue
    let b = d.to_be_bytes();
    let nb = (-d).to_be_bytes();
    b[..24].iter().all(|&x| x == 0) || nb[..24].iter().all(|&x| x == 0)
}

/// The freshness invariant over everything produced so far. Returns violations as (signature class, description).
pub fn invariant(o: &Obs) -> Vec<(String, String)> {
    let mut v = Vec::new();
    for e in &o.errors { v.push(("generation-failed".to_string(), e.clone())); }
    for (l, s) in &o.scalars {
        if *s == [0u8; 32] { v.push(("zero-scalar".into(), format!("{} is zero", l))); }
        else if !be_gt_2_128(s) { v.push(("low-entropy-scalar".into(), format!("{} = {} is below 2^128", l, hex::encode(s)))); }
    }
    let sc_: Vec<Scalar> = o.scalars.iter().map(|x| sc(&x.1)).collect();
    for i in 0..sc_.len() { for j in (i + 1)..sc_.len() {
        let d = sc_[i] - sc_[j];
        if d == Scalar::ZERO { v.push(("repeated-scalar".into(), format!("{} == {}", o.scalars[i].0, o.scalars[j].0))); }
        else if small_mod_r(&d) { v.push(("related-scalars".into(), format!("{} and {} differ by less than 2^64", o.scalars[i].0, o.scalars[j].0))); }
    } }
    for i in 0..o.points.len() { for j in (i + 1)..o.points.len() {
        if o.points[i].1 == o.points[j].1 { v.push(("repeated-point".into(), format!("{} == {}", o.points[i].0, o.points[j].0))); }
    } }
    for (l, bytes, wins) in &o.windows {
        for (wl, w) in wins { if w.len() <= bytes.len() && bytes.windows(w.len()).any(|x| x == &w[..]) { v.push(("secret-in-encoding".into(), format!("{} contains {}", l, wl))); } }
    }
    // two-transcript extraction
    for i in 0..o.transcripts.len() { for j in (i + 1)..o.transcripts.len() {
        let (a, b) = (&o.transcripts[i], &o.transcripts[j]);
        if a.0 != b.0 { continue; }
        let dc = sc(&a.1) - sc(&b.1);
        let inv = match Option::<Scalar>::from(dc.invert()) { Some(x) => x, None => { v.push(("repeated-challenge".into(), format!("two transcripts for {} share the challenge", a.0))); continue; } };
        for (sa, sb) in a.2.iter().zip(b.2.iter()) {
            if sa.0 != sb.0 { continue; }
            let x = (sc(&sa.1) - sc(&sb.1)) * inv;
            if x == sc(&sa.2) || x == -sc(&sa.2) { v.push(("two-transcript-extraction".into(), format!("(resp - resp')/(c - c') recovers secret '{}' of {}", sa.0, a.0))); }
        }
    } }
    v
}

const PLACEMENTS: [&str; 4] = ["same-thread", "fresh-thread-per-op", "two-concurrent-threads", "reused-thread"];

fn run_history(s: Suite, hist: &[usize], placement: usize, mut on_state: impl FnMut(&Obs, usize)) {
    let mut all = Obs::default();
    match placement {
        0 => for (i, &op) in hist.iter().enumerate() { merge(&mut all, run_op(s, op, &format!("#{}:{}", i, OPS[op]))); on_state(&all, i); },
        1 => for (i, &op) in hist.iter().enumerate() {
            let o = std::thread::spawn(move || run_op(s, op, &format!("#{}:{}", i, OPS[op]))).join().unwrap();
            merge(&mut all, o); on_state(&all, i);
        },
        2 => {
            // two fresh threads started from a barrier; ops alternate between them. State is judged after all ops.
            let bar = Arc::new(Barrier::new(2));
            let parts: Vec<Vec<(usize, usize)>> = vec![hist.iter().copied().enumerate().filter(|(i, _)| i % 2 == 0).collect(), hist.iter().copied().enumerate().filter(|(i, _)| i % 2 == 1).collect()];
            let hs: Vec<_> = parts.into_iter().map(|p| { let bar = bar.clone(); std::thread::spawn(move || { bar.wait(); let mut o = Obs::default(); for (i, op) in p { merge(&mut o, run_op(s, op, &format!("#{}:{}", i, OPS[op]))); } o }) }).collect();
            for h in hs { merge(&mut all, h.join().unwrap()); }
            on_state(&all, hist.len() - 1);
        }
        _ => {
            // a long-lived thread that has generated before (its thread-local RNG is initialised and advanced)
            let hist = hist.to_vec();
            let o = std::thread::spawn(move || {
                let mut acc = Vec::new();
                let warm = run_op(s, 5, "warm-up:BlindFactor::random");
                acc.push(warm);
                for (i, &op) in hist.iter().enumerate() { acc.push(run_op(s, op, &format!("#{}:{}", i, OPS[op]))); }
                acc
            }).join().unwrap();
            for (i, x) in o.into_iter().enumerate() { merge(&mut all, x); if i > 0 { on_state(&all, i - 1); } }
        }
    }
}

fn obs_json(o: &Obs) -> Value {
    json!({"scalars": o.scalars.iter().map(|x| (x.0.clone(), hex::encode(x.1))).collect::<Vec<_>>(), "points": o.points.iter().map(|x| (x.0.clone(), hex::encode(&x.1))).collect::<Vec<_>>(), "errors": o.errors})
}

/// child process entry: `zkmc c07-child <suite> <op,op,...>` prints the observed values as JSON on the real stdout
pub fn child_main(args: &[String], out: &mccore::Out) {
    let s = if args.get(0).map(|x| x.as_str()) == Some("shake256") { Suite::Shake256 } else { Suite::Sha256 };
    let hist: Vec<usize> = args.get(1).map(|x| x.split(',').filter_map(|t| t.parse().ok()).collect()).unwrap_or_default();
    let mut all = Obs::default();
    for (i, &op) in hist.iter().enumerate() { merge(&mut all, run_op(s, op, &format!("#{}:{}", i, OPS[op]))); }
    out.line(&obs_json(&all).to_string());
}

/// One generating operation with a WIDE shape (U hidden messages / M committed messages): the invariant is judged
/// inside the single transcript, which is where a block-wise or windowed scalar generator repeats itself.
pub fn run_wide(s: Suite, proof: bool, n: usize, dup: usize, label: &str) -> Obs {
    let zk = z(s);
    let k = key(s, "k0");
    let mut o = Obs::default();
    // dup > 0: the messages repeat with period `dup` (equal hidden messages inside one transcript must still get distinct blinding)
    let msgs: Vec<Vec<u8>> = (0..n).map(|i| format!("wide-{}", if dup > 0 { i % dup } else { i }).into_bytes()).collect();
    if proof {
        let pk96: [u8; 96] = k.pk.clone().try_into().unwrap();
        let sk = refbbs::octets_to_scalar_strict(&k.sk).unwrap();
        let sig = refbbs::sign(s, &sk, &pk96, b"wide", &msgs).unwrap().to_vec();
        let (a, e) = refbbs::octets_to_signature(&sig).map(|(a, e)| (refbbs::g1_bytes(&a).to_vec(), e)).unwrap();
        match zk.proof_gen(&k.pk, &sig, Some(b"wide"), Some(b"ph"), Some(&msgs), Some(&[])) {
            O::Ok(p) => { let ms = refbbs::messages_to_scalars(s, &msgs, &s.api_id()).unwrap(); let hidden: Vec<(usize, Scalar)> = ms.into_iter().enumerate().collect(); proof_obs(&mut o, label, s, false, &p, &e, &a, &hidden, &format!("wide-proof/{}", n)); }
            other => o.errors.push(format!("{}: {}", label, other.describe())),
        }
    } else {
        match zk.commit(Some(&msgs)) {
            O::Ok((c, blind)) => {
                if c.len() != 112 + 32 * n { o.errors.push(format!("{}: commitment length {}", label, c.len())); return o; }
                let rd = |i: usize| -> [u8; 32] { c[48 + 32 * i..80 + 32 * i].try_into().unwrap() };
                let chal = sc(&rd(n + 1)); let b = sc(&blind);
                o.scalars.push((format!("{label}.secret_prover_blind"), blind));
                o.scalars.push((format!("{label}.s~ = s^ - blind*c"), (sc(&rd(0)) - b * chal).to_be_bytes()));
                let ms = refbbs::messages_to_scalars(s, &msgs, &s.api_id_blind()).unwrap();
                for j in 0..n { o.scalars.push((format!("{label}.m~_{j} = m^ - m*c"), (sc(&rd(1 + j)) - ms[j] * chal).to_be_bytes())); }
            }
            other => o.errors.push(format!("{}: {}", label, other.describe())),
        }
    }
    o
}

pub fn run(env: &Env) {
    env.ctx.set_rule("birthday roots: 2^20 draws of BlindFactor::random and of generate_random_secret(64), 2^14 (thorough 2^19) random key pairs per suite, on 16 threads: no repeat, no zero. alphabet of 8 generating operations on identical fixed inputs (proof_gen D=none, proof_gen D=all, blind_proof_gen, commit M=0, commit M=2, BlindFactor::random, KeyPair::random, generate_random_secret); ALL histories of length <= 3 (584) x 4 thread placements (same thread; fresh OS thread per op; two concurrent threads from a barrier; a reused thread that generated before) x 2 suites, the freshness invariant evaluated after every operation over everything produced so far; each single op repeated 64 times; wide shapes: proof_gen with EVERY U in 0..=72 (thorough 0..=300) and {128, 257} hidden messages and commit with every such M, judged inside the single transcript; transcripts with EQUAL hidden / committed messages (all equal, period 2, period 3); the same histories in two child processes (cross-process). Invariant: all witness-recomputed blinding scalars, responses, challenges, secrets non-zero, >= 2^128, pairwise distinct and pairwise more than 2^64 apart mod r; all points pairwise distinct; no two-transcript extraction of e / hidden messages / blinding factor; no 32/48-octet window of an encoding equals a hidden scalar, e, or A. State = (suite, placement, history prefix); non-trivial = at least one production-randomness artefact was produced and judged.");
    env.ctx.assume("independence/unpredictability of the CSPRNG itself is not decidable by bounded exploration; the check decides absence of reuse, of low-entropy and of small-difference relations within the explored histories, threads and two processes");
    let seed = env.ctx.seed;
    let _ = seed;
    let maxlen = 3;
    let mut hists: Vec<Vec<usize>> = Vec::new();
    for len in 1..=maxlen { hists.extend(tuples(OPS.len(), len)); }
    struct Root { id: String, suite: Suite, hist: Vec<usize>, placement: usize, kind: u8, wide: usize, dup: usize }
    let mut roots = Vec::new();
    for s in suites() {
        for h in &hists { for p in 0..4 {
            if !env.thorough() && s == Suite::Shake256 && h.len() == 3 && p != 1 { continue; } // quick: second suite takes length-3 histories on fresh threads only
            roots.push(Root { id: format!("{}/{}/{:?}", s.name(), PLACEMENTS[p], h), suite: s, hist: h.clone(), placement: p, kind: 0, wide: 0, dup: 0 });
        } }
        for op in 0..OPS.len() { roots.push(Root { id: format!("{}/repeat64/{}", s.name(), OPS[op]), suite: s, hist: vec![op; if env.thorough() { 256 } else { 64 }], placement: 0, kind: 1, wide: 0, dup: 0 }); }
        let mut xp: Vec<Vec<usize>> = (0..OPS.len()).map(|o| vec![o]).collect();
        xp.extend([vec![0, 4, 5], vec![6, 7, 2], vec![5, 5, 5], vec![3, 1, 6]]);
        if env.thorough() { xp.extend(tuples(OPS.len(), 2)); }
        for h in xp { roots.push(Root { id: format!("{}/cross-process/{:?}", s.name(), h), suite: s, hist: h, placement: 0, kind: 2, wide: 0, dup: 0 }); }
    }
    // wide shapes: EVERY count of hidden / committed messages 0..=72 (thorough 0..=300) plus 128 and 257, both operations
    for s in suites() {
        let mut ns: Vec<usize> = (0..=if env.thorough() { 300 } else { 72 }).collect(); ns.extend([128, 257]);
        for n in ns { for pr in [true, false] { if !env.thorough() && s == Suite::Shake256 && n % 8 != 1 && n % 8 != 0 { continue; } roots.push(Root { id: format!("{}/wide/{}/{}", s.name(), if pr { "proof_gen(U)" } else { "commit(M)" }, n), suite: s, hist: vec![if pr { 0 } else { 4 }], placement: 0, kind: 3, wide: n, dup: 0 }); } }
        // proof_gen with a disclosed-index list that repeats entries (the prover sorts and de-duplicates; the hidden messages must
        // still get one fresh nonce each)
        for (k, lst) in [vec![1usize, 1, 1], vec![0, 2, 0, 2], vec![0, 0], vec![3, 3, 3, 3, 3]].into_iter().enumerate() { roots.push(Root { id: format!("{}/redundant-index-list/{:?}", s.name(), lst), suite: s, hist: lst, placement: k, kind: 5, wide: 5, dup: 0 }); }
        // equal messages inside one transcript: all equal, and repeating with period 2 / 3
        for (n, dup) in [(2usize, 1usize), (3, 1), (5, 1), (4, 2), (6, 3), (7, 2)] { for pr in [true, false] { roots.push(Root { id: format!("{}/equal-messages/{}/n{}/period{}", s.name(), if pr { "proof_gen" } else { "commit" }, n, dup), suite: s, hist: vec![if pr { 0 } else { 4 }], placement: 0, kind: 3, wide: n, dup }); } }
    }
    // long repetition histories judged for repeats and zeros only: N draws with no repeat rule out a generator whose output
    // space (or seed) has fewer than about 2*log2(N) - 4 bits; N = 2^20 (key pairs 2^14, thorough 2^19)
    for s in suites() { for (op, n) in [(5usize, 1usize << 20), (7, 1 << 20), (6, if env.thorough() { 1 << 19 } else { 1 << 14 })] {
        if s == Suite::Shake256 && op != 6 { continue; } // BlindFactor::random and generate_random_secret do not depend on the suite
        roots.push(Root { id: format!("{}/birthday/{}/N{}", s.name(), OPS[op], n), suite: s, hist: vec![op], placement: 0, kind: 4, wide: n, dup: 0 });
    } }
    par_for(&roots, |_, r| {
        if !env.want(&r.id) || env.ctx.out_of_time() { return; }
        if r.kind == 4 {
            let zk = z(r.suite);
            let n = r.wide;
            let chunks: Vec<usize> = (0..16).collect();
            let sets: std::sync::Mutex<Vec<Vec<u128>>> = std::sync::Mutex::new(Vec::new());
            let zeros = std::sync::atomic::AtomicUsize::new(0); let errs = std::sync::atomic::AtomicUsize::new(0);
            std::thread::scope(|sc| { for _ in &chunks { sc.spawn(|| {
                let mut v: Vec<u128> = Vec::with_capacity(n / 16);
                for _ in 0..n / 16 {
                    let bytes: Option<Vec<u8>> = match r.hist[0] { 5 => zk.random_blind_factor().ok().map(|b| b.to_vec()), 6 => zk.random_keypair().ok().map(|(sk, _)| sk), _ => zk.random_secret(64).ok() };
                    match bytes { Some(b) if b.len() >= 32 => { if b.iter().all(|&x| x == 0) { zeros.fetch_add(1, std::sync::atomic::Ordering::Relaxed); } v.push(u128::from_be_bytes(b[b.len() - 16..].try_into().unwrap()) ^ u128::from_be_bytes(b[..16].try_into().unwrap())); } _ => { errs.fetch_add(1, std::sync::atomic::Ordering::Relaxed); } }
                }
                sets.lock().unwrap().push(v);
            }); } });
            let mut all: Vec<u128> = sets.into_inner().unwrap().into_iter().flatten().collect();
            env.ctx.steps(all.len() as u64); env.ctx.state(&[r.id.as_bytes()]);
            let total = all.len(); all.sort_unstable(); all.dedup();
            let (z0, e0) = (zeros.into_inner(), errs.into_inner());
            if all.len() != total { env.ctx.violation(&format!("C07:birthday:repeat:{}", OPS[r.hist[0]]), &format!("{} of {} values drawn on 16 threads repeat an earlier one: the generator has far fewer than 2^{} possible outputs", total - all.len(), total, 2 * (usize::BITS - total.leading_zeros()) - 6), env.case(&r.id, json!({"operation": OPS[r.hist[0]], "draws": total}))); }
            if z0 > 0 { env.ctx.violation(&format!("C07:birthday:zero:{}", OPS[r.hist[0]]), &format!("{} of {} drawn values are zero", z0, total), env.case(&r.id, json!({"operation": OPS[r.hist[0]], "draws": total}))); }
            if e0 > 0 { env.ctx.violation(&format!("C07:birthday:error:{}", OPS[r.hist[0]]), &format!("{} of {} draws failed", e0, n), env.case(&r.id, json!({"operation": OPS[r.hist[0]]}))); }
            env.ctx.class("birthday"); env.ctx.trace();
            return;
        }
        if r.kind == 5 {
            let (zk, k) = (z(r.suite), key(r.suite, "k0"));
            let msgs: Vec<Vec<u8>> = (0..r.wide).map(|i| format!("ril-{}", i).into_bytes()).collect();
            let pk96: [u8; 96] = k.pk.clone().try_into().unwrap();
            let sig = refbbs::sign(r.suite, &refbbs::octets_to_scalar_strict(&k.sk).unwrap(), &pk96, b"ril", &msgs).unwrap().to_vec();
            let (a, e) = refbbs::octets_to_signature(&sig).map(|(a, e)| (refbbs::g1_bytes(&a).to_vec(), e)).unwrap();
            env.ctx.step(); env.ctx.state(&[r.id.as_bytes()]);
            let mut obs = Obs::default();
            match zk.proof_gen(&k.pk, &sig, Some(b"ril"), Some(b"ph"), Some(&msgs), Some(&r.hist)) {
                O::Ok(p) => { let ms = refbbs::messages_to_scalars(r.suite, &msgs, &r.suite.api_id()).unwrap(); let hidden: Vec<(usize, Scalar)> = ms.into_iter().enumerate().filter(|(i, _)| !r.hist.contains(i)).collect(); proof_obs(&mut obs, "ril", r.suite, false, &p, &e, &a, &hidden, "redundant-index-list"); }
                O::Err(_) => { env.ctx.class("redundant-index-list:refused"); env.ctx.trace(); return; }
                other => obs.errors.push(format!("proof_gen with index list {:?}: {}", r.hist, other.describe())),
            }
            for (cls, what) in invariant(&obs) { env.ctx.violation(&format!("C07:redundant-index-list:{}", cls), &format!("{} (proof_gen with the disclosed-index list {:?})", what, r.hist), env.case(&r.id, json!({"disclosed_index_list": r.hist}))); }
            env.ctx.class("redundant-index-list"); env.ctx.trace();
            return;
        }
        if r.kind == 3 {
            let obs = run_wide(r.suite, r.hist[0] == 0, r.wide, r.dup, "wide");
            env.ctx.step(); env.ctx.state(&[r.id.as_bytes()]);
            for (cls, what) in invariant(&obs) { env.ctx.violation(&format!("C07:wide-shape:{}", cls), &format!("{} (one transcript with {} hidden/committed messages)", what, r.wide), env.case(&r.id, json!({"operation": if r.hist[0] == 0 { "proof_gen with U hidden messages" } else { "commit with M messages" }, "count": r.wide}))); }
            env.ctx.class("wide-shape"); env.ctx.trace();
            return;
        }
        let names: Vec<&str> = r.hist.iter().map(|&o| OPS[o]).collect();
        if r.kind == 2 {
            // cross-process: same history in two children
            let exe = std::env::current_exe().unwrap();
            let arg: String = r.hist.iter().map(|x| x.to_string()).collect::<Vec<_>>().join(",");
            let mut all = Obs::default();
            for child in 0..2 {
                let outp = std::process::Command::new(&exe).args(["c07-child", r.suite.name(), &arg]).output();
                env.ctx.steps(r.hist.len() as u64);
                let v: Option<Value> = outp.ok().and_then(|o| serde_json::from_slice(&o.stdout).ok());
                match v {
                    Some(v) => {
                        for x in v["scalars"].as_array().cloned().unwrap_or_default() { let b: [u8; 32] = hex::decode(x[1].as_str().unwrap()).unwrap().try_into().unwrap(); all.scalars.push((format!("process{}:{}", child, x[0].as_str().unwrap()), b)); }
                        for x in v["points"].as_array().cloned().unwrap_or_default() { all.points.push((format!("process{}:{}", child, x[0].as_str().unwrap()), hex::decode(x[1].as_str().unwrap()).unwrap())); }
                        for x in v["errors"].as_array().cloned().unwrap_or_default() { all.errors.push(x.as_str().unwrap_or("").to_string()); }
                    }
                    None => { env.machinery(&format!("c07 child process failed for {}", r.id)); return; }
                }
            }
            env.ctx.state(&[r.id.as_bytes()]);
            for (cls, what) in invariant(&all) { env.ctx.violation(&format!("C07:cross-process:{}", cls), &what, env.case(&r.id, json!({"history": names, "placement": "two child processes"}))); }
            env.ctx.class("cross-process");
            env.ctx.trace();
            return;
        }
        run_history(r.suite, &r.hist, r.placement, |obs, i| {
            env.ctx.step();
            if r.kind == 1 && i + 1 != r.hist.len() && (i + 1) % 16 != 0 { return; } // repetition runs: judge every 16th state and the last
            env.ctx.state(&[r.id.as_bytes(), &(i as u32).to_be_bytes()]);
            for (cls, what) in invariant(obs) {
                env.ctx.violation(&format!("C07:{}:{}", if r.kind == 1 { "repeat" } else { PLACEMENTS[r.placement] }, cls), &what, env.case(&r.id, json!({"history": names, "placement": PLACEMENTS[r.placement], "judged_after_op": i})));
            }
        });
        env.ctx.class(&format!("{}:len{}", if r.kind == 1 { "repeat" } else { PLACEMENTS[r.placement] }, r.hist.len().min(4)));
        env.ctx.trace();
        if r.hist.len() == 3 && r.hist[0] == 0 && r.hist[1] == 4 && r.hist[2] == 6 { env.ctx.sample(json!({"root": r.id, "history": names, "placement": PLACEMENTS[r.placement]})); }
    });
}
