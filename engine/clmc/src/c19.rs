//! C19 — CL03 proof responses statistically mask the secrets they answer for (form C: attacker-side quotients over every
//! (leaf, challenge, secret) triple and every ordered leaf pair of every explored proof).
#![allow(non_snake_case)]
use crate::c17::{collect, Item};
use crate::common::*;
use mccore::{int_leaf_paths, json_get, par_for, path_class};
use rug::{integer::Order, Complete, Integer};
use serde_json::{json, Value};
use sha2::{Digest, Sha256};
use zkryptium::cl03::keys::{CL03PublicKey, CL03SecretKey};
use zkryptium::schemes::algorithms::{Scheme, CL03};

fn h(s: String) -> Integer { Integer::from_digits(Sha256::digest(s.as_bytes()).as_slice(), Order::MsfBe) }

/// Fiat-Shamir challenges a recipient can recompute from the proof and public data alone.
pub fn challenges<CS: Suite>(w: &World<CS>, it: &Item) -> Vec<(String, Integer)> where CL03<CS>: Scheme<PubKey = CL03PublicKey, PrivKey = CL03SecretKey> {
    let mut out: Vec<(String, Integer)> = Vec::new();
    let leaves = int_leaf_paths(&it.proof);
    for p in &leaves {
        let last = p.last().unwrap().as_str();
        let v = leaf_int(json_get(&it.proof, p).unwrap()).unwrap();
        if last == "challenge" { out.push((format!("/{}", p.join("/")), v)); }
        else if last == "C" { out.push((format!("/{} mod 2^128", p.join("/")), v.clone() % pow2(128))); out.push((format!("/{}", p.join("/")), v)); }
    }
    // nisp2sec: challenge = H(g1 || h1 || commitment.value || t) over decimal strings
    let get = |v: &Value, k: &str| leaf_int(&v[k]);
    let cval = |v: &Value| -> Option<Integer> { if v["commitment"].get("value").and_then(|x| x.get("radix")).is_some() { leaf_int(&v["commitment"]["value"]) } else { leaf_int(&v["commitment"]) } };
    let root = &it.proof["CL03"];
    if let Some(arr) = root["proofs_commited_mi"].as_array() {
        for (k, pv) in arr.iter().enumerate() {
            let i = it.hidden.get(k).copied().unwrap_or(0);
            let (g, hh) = if it.kind == "issuance" { (w.bases.0[i].clone(), w.pk.b.clone()) } else { (w.cpk.g_bases[i].clone(), w.cpk.h.clone()) };
            if let (Some(cv), Some(t)) = (cval(pv), get(&pv["value"], "t")) { out.push((format!("recomputed challenge of proofs_commited_mi[{}]", k), h(g.to_string() + &hh.to_string() + &cv.to_string() + &t.to_string()))); }
        }
    }
    if root["proof_r"].is_object() { if let (Some(cv), Some(t)) = (cval(&root["proof_r"]), get(&root["proof_r"]["value"], "t")) { out.push(("recomputed challenge of proof_r".into(), h(w.bases.0[0].to_string() + &w.pk.b.to_string() + &cv.to_string() + &t.to_string()))); } }
    if root["proof_commited_msgs"].is_object() {
        if let (Some(t), Some(c)) = (get(&root["proof_commited_msgs"], "t"), it.public_extra.iter().find(|x| x.0 == "C")) {
            let mut s = String::new(); for &i in &it.hidden { s += &w.bases.0[i].to_string(); }
            out.push(("recomputed challenge of proof_commited_msgs".into(), h(s + &w.pk.b.to_string() + &c.1.to_string() + &t.to_string())));
        }
    }
    out
}

const T_PARAM: u32 = 128; const L_PARAM: u32 = 40;
/// Attacker-side use of a Boudot range proof: floor(d / challenge) of a proof of square approximates x_{a,1} = floor(sqrt(2^T x - aa))
/// (resp. x_{b,1} = floor(sqrt(bb - 2^T x))), from which x follows by public arithmetic. Returns (which, estimate of x).
fn boudot_estimates(rp: &Value, a: &Integer, b: &Integer) -> Vec<(String, Integer)> {
    let mut out = Vec::new();
    let big_t = 2 * (T_PARAM + L_PARAM + 1) + (b - a).complete().significant_bits();
    // the decomposition offsets the library uses: the scaled interval [2^T a, 2^T b] ([Boudot2000] 3.1.2)
    let aa = pow2(big_t) * a;
    let bb = pow2(big_t) * b;
    for side in ["a", "b"] {
        let ss = &rp["proof_of_tolerance"][format!("proof_of_square_{}", side)]["proof_ss"];
        let (d, c) = match (leaf_int(&ss["d"]), leaf_int(&ss["challenge"])) { (Some(d), Some(c)) if c > 0 => (d, c), _ => continue };
        for cc in [c.clone(), c.clone() % pow2(T_PARAM)] {
            if cc <= 0 { continue; }
            let x1 = Integer::from(&d / &cc);
            let xs = x1.clone() * &x1;
            let xprime = if side == "a" { xs + &aa } else { bb.clone() - xs };
            out.push((format!("proof_of_square_{}: floor(d/c)^2 via public offsets", side), xprime >> big_t));
        }
    }
    out
}

pub fn run<CS: Suite>(env: &Env)
where CL03<CS>: Scheme<PubKey = CL03PublicKey, PrivKey = CL03SecretKey>, CS::HashAlg: sha2::Digest {
    let maxn = if env.thorough() { 4 } else { 3 };
    let w: World<CS> = World::generate(66);
    run_world(env, w, maxn);
}

/// Quick tier only: the same exploration over a world built on the fixed key pair of a larger ciphersuite, n = 1 plus the longer-key and equal-value shapes (what depends
/// on the SIZES of a suite - a draw capped at a fixed width, a blinding sized for CL1024 - shows only there).
pub fn run_fixture<CS: Suite>(env: &Env, keypair_json: &str)
where CL03<CS>: Scheme<PubKey = CL03PublicKey, PrivKey = CL03SecretKey>, CS::HashAlg: sha2::Digest, zkryptium::keys::pair::KeyPair<CL03<CS>>: serde::de::DeserializeOwned {
    match World::<CS>::from_keypair_json(keypair_json, 3) {
        Some(w) => { env.ctx.assume(&format!("{}: issuer key pair is a committed fixture (generated once by the real KeyPair::generate, re-validated on load); thorough generates it afresh", CS::NAME)); run_world(env, w, 1) }
        None => env.machinery(&format!("key pair fixture for {} does not load or is not a product of two safe primes of the suite's size", CS::NAME)),
    }
}

fn run_world<CS: Suite>(env: &Env, w: World<CS>, maxn: usize)
where CL03<CS>: Scheme<PubKey = CL03PublicKey, PrivKey = CL03SecretKey>, CS::HashAlg: sha2::Digest {
    let items = collect::<CS>(env, &w, maxn, "c19");
    env.ctx.set_rule("worlds: CL1024 over a freshly generated key (n <= 3; thorough n <= 4 and CL2048 likewise); quick additionally CL2048 over the committed fixture key pair, everything else drawn afresh (n = 1 plus the longer-key and equal-value shapes). Per world: every honest issuance proof (all non-empty hidden subsets) and signature proof (all subsets). S = all integer leaves of the serialized proof; Cset = every Fiat-Shamir challenge a recipient can recompute (explicit challenge / C fields, C mod 2^t, and the hashes the verifier recomputes from public data); X = every secret the prover holds that the harness knows (hidden m_i, e, s, v, commitment randomness r, and any randomness leaf that is present in the proof). For EVERY (s, c, x) in S x Cset x X and EVERY ordered pair (s, s') in S^2: |floor(s/c) - x| >= 2^64 and |floor(s/s') - x| >= 2^64; and for every pair of leaves and every pair of secrets |floor((s - s')/c) - (x - x')| >= 2^64 (shared blinding); floor(response / challenge of the same sub-proof) must not be the opening randomness of any commitment value in the proof or of the request's commitment (V != prod g_i^m_i * h^q, V != g_i^m_i * h^q over the three base families); the bit length of every response is the same (+-64 bits) whether the hidden attribute is 0, 1 or hash-sized. Additionally every embedded Boudot range proof is attacked through its proofs of square: floor(d / challenge)^2 plus the public offset, shifted by 2^T, must not land within 2^64 of the secret the range proof is about (hidden m_i, e, r). State = (proof, leaf); non-trivial = a quotient was computed against a prover secret.");
    let bound = pow2(64);
    par_for(&items, |_, it| {
        if !env.want(&it.id) || env.ctx.out_of_time() { return; }
        let leaves = int_leaf_paths(&it.proof);
        let vals: Vec<(Vec<String>, Integer)> = leaves.iter().map(|p| (p.clone(), leaf_int(json_get(&it.proof, p).unwrap()).unwrap())).collect();
        let cs = challenges::<CS>(&w, it);
        let mut secrets = it.secrets.clone();
        for (p, v) in &vals { if p.last().map(|x| x == "randomness").unwrap_or(false) { secrets.push((format!("randomness leaf /{}", path_class(p)), v.clone())); } }
        let det0 = json!({"suite": CS::NAME, "proof": it.id, "hidden": it.hidden});
        let close = |q: &Integer, x: &Integer| (q - x).complete().abs() < bound;
        for (p, s) in &vals {
            env.ctx.state(&[it.id.as_bytes(), p.join("/").as_bytes()]);
            let is_resp = { let l = p.last().unwrap(); let l = if l.chars().all(|c| c.is_ascii_digit()) && p.len() >= 2 { &p[p.len() - 2] } else { l }; matches!(l.as_str(), "d" | "d_1" | "d_2" | "s1" | "s2" | "D_1" | "D_2") || (l.starts_with("s_") && l.len() == 3) };
            // a zero response is itself a quotient (0) — kept for response leaves; other leaves <= 0 carry nothing to divide
            if *s < 0 || (*s == 0 && !is_resp) { env.ctx.trace(); continue; }
            for (cn, c) in &cs {
                if *c <= 0 { continue; }
                env.ctx.step();
                let q = Integer::from(s / c);
                for (xn, x) in &secrets {
                    if p.last().map(|l| l == "randomness").unwrap_or(false) && xn.starts_with("randomness leaf") { continue; } // a leaf trivially equals itself
                    // a secret below 2^64 (attribute 0 or 1) is within 2^64 of every small quotient: for those only
                    // response leaves count — a response must be dominated by its blinding whatever the secret is
                    if *x < bound && !is_resp { continue; }
                    if close(&q, x) { env.ctx.violation(&format!("C19:quotient-by-challenge:/{}:{}", path_class(p), xn.split(" m_").next().unwrap_or(xn)), &format!("floor(/{} / {}) is within 2^64 of the prover's secret '{}' (difference {})", p.join("/"), cn, xn, (&q - x).complete()), env.case(&it.id, json!({"base": det0, "response": p.join("/"), "divisor": cn, "secret": xn}))); }
                }
            }
            for (p2, s2) in &vals {
                if p == p2 || *s2 <= 0 { continue; }
                env.ctx.step();
                let q = Integer::from(s / s2);
                for (xn, x) in &secrets {
                    if xn.starts_with("randomness leaf") || *x < bound { continue; }
                    if close(&q, x) { env.ctx.violation(&format!("C19:quotient-by-response:/{} over /{}:{}", path_class(p), path_class(p2), xn.split(" m_").next().unwrap_or(xn)), &format!("floor(/{} / /{}) is within 2^64 of the prover's secret '{}' (difference {})", p.join("/"), p2.join("/"), xn, (&q - x).complete()), env.case(&it.id, json!({"base": det0, "response": p.join("/"), "divisor": p2.join("/"), "secret": xn}))); }
                }
            }
            // differences of two responses: a shared (or related) blinding shows as floor((s - s') / c) ~ x - x'
            for (p2, s2) in &vals {
                if p >= p2 || !(p.len() == p2.len() && (p[..p.len() - 1] == p2[..p2.len() - 1] || path_class(p) == path_class(p2))) { continue; }
                let d = (s - s2).complete();
                for (_cn, c) in &cs { if *c <= 0 { continue; } env.ctx.step(); let q = Integer::from(&d / c);
                    for (i, (xn, x)) in secrets.iter().enumerate() { for (xn2, x2) in secrets.iter().skip(i + 1) {
                        if xn.starts_with("randomness leaf") || xn2.starts_with("randomness leaf") { continue; }
                        let dx = (x - x2).complete();
                        if dx.clone().abs() < bound { continue; }
                        if close(&q, &dx) || close(&q, &(-dx.clone())) { env.ctx.violation(&format!("C19:difference-quotient:/{} minus /{}", path_class(p), path_class(p2)), &format!("floor((/{} - /{}) / challenge) is within 2^64 of the difference of the secrets '{}' and '{}'", p.join("/"), p2.join("/"), xn, xn2), env.case(&it.id, json!({"base": det0, "responses": [p.join("/"), p2.join("/")], "secrets": [xn, xn2]}))); }
                    } }
                }
            }
            env.ctx.class(if is_resp { "response leaf" } else { "other leaf" });
            env.ctx.trace();
        }
        // quotient openings: floor(response / challenge) used as the randomness of a commitment carried in (or next to) the same
        // sub-proof. If value = prod g_i^{m_i} * h^q (or g_i^{m_i} * h^q) holds, the response handed out the commitment's opening
        // randomness (its blinding was missing), whatever the attributes are.
        {
            let n = it.n;
            let fams: Vec<(&str, Vec<Integer>, Integer, Integer)> = vec![("(a_*, b, N)", w.bases.0[..n].to_vec(), w.pk.b.clone(), w.pk.N.clone()), ("(g_*, h, N)", w.cpk.g_bases[..n].to_vec(), w.cpk.h.clone(), w.cpk.N.clone()), ("(g'_*, h', N')", w.cpk_own.g_bases[..n].to_vec(), w.cpk_own.h.clone(), w.cpk_own.N.clone())];
            // the parts of each candidate value that do not depend on q
            let mut fixed: Vec<(String, Integer, Integer, Integer)> = Vec::new(); // (name, prod g^m, h, N)
            for (fname, gs, h, nn) in &fams {
                let mut acc = Integer::from(1); for i in 0..n { acc = (acc * modpow(&gs[i], &it.m[i], nn)) % nn; }
                fixed.push((format!("prod g_i^m_i over {}", fname), acc, h.clone(), nn.clone()));
                for i in (0..n).filter(|i| n <= 4 || *i == 0 || it.hidden.contains(i)) { fixed.push((format!("g_{}^m_{} over {}", i, i, fname), modpow(&gs[i], &it.m[i], nn), h.clone(), nn.clone())); }
                for (sn, x) in &it.secrets { if sn.starts_with("signature") { for i in 0..n.min(1) { fixed.push((format!("g_{}^({}) over {}", i, sn, fname), modpow(&gs[i], x, nn), h.clone(), nn.clone())); } } }
            }
            let top = |p: &Vec<String>| p.iter().take(2).cloned().collect::<Vec<_>>();
            let is_elem = |v: &Integer| v.significant_bits() + 40 >= w.pk.N.significant_bits();
            let values: Vec<&(Vec<String>, Integer)> = vals.iter().filter(|(p, v)| is_elem(v) && !matches!(p.last().unwrap().as_str(), "t" | "challenge" | "C")).collect();
            let mut extra_vals: Vec<(Vec<String>, Integer)> = it.public_extra.iter().map(|(n, v)| (vec!["public".to_string(), n.clone()], v.clone())).collect();
            extra_vals.retain(|(_, v)| is_elem(v));
            for (ps, s_) in &vals {
                let l = ps.last().unwrap(); let l = if l.chars().all(|c| c.is_ascii_digit()) && ps.len() >= 2 { &ps[ps.len() - 2] } else { l };
                let resp = matches!(l.as_str(), "d" | "d_1" | "d_2" | "s1" | "s2") || (l.starts_with("s_") && l.len() == 3);
                if !resp || *s_ < 0 || ps.iter().any(|x| x.starts_with("range_proof")) { continue; }
                for (cn, c) in &cs {
                    if *c <= 0 { continue; }
                    // only the challenge(s) of the same sub-proof: carried next to the response, or recomputed for that sub-proof
                    let same = cn.starts_with('/') && top(&cn.trim_start_matches('/').split('/').map(|x| x.to_string()).collect()) == top(ps) || cn.starts_with("recomputed") && ps.iter().any(|seg| cn.contains(seg.as_str()) && seg.len() > 3);
                    if !same { continue; }
                    let q = Integer::from(s_ / c);
                    for (pv, V) in values.iter().map(|x| (&x.0, &x.1)).chain(extra_vals.iter().map(|x| (&x.0, &x.1))) {
                        if pv[0] != "public" && top(pv) != top(ps) { continue; }
                        for (fname, gm, h, nn) in &fixed {
                            env.ctx.step();
                            if (gm.clone() * modpow(h, &q, nn)) % nn == *V {
                                env.ctx.violation(&format!("C19:quotient-opens-commitment:/{} over /{}", path_class(ps), path_class(pv)), &format!("/{} = {} * h^floor(/{} / {}): the response divided by its challenge is the opening randomness of that commitment", pv.join("/"), fname, ps.join("/"), cn), env.case(&it.id, json!({"base": det0, "value": pv.join("/"), "response": ps.join("/"), "challenge": cn, "bases": fname})));
                            }
                        }
                    }
                }
            }
        }
        // derived secrets: every embedded range proof, attacked through its proofs of square
        let root = &it.proof["CL03"];
        let secret = |name: &str| it.secrets.iter().find(|s| s.0 == name).map(|s| s.1.clone());
        let mut rps: Vec<(String, &Value, Integer, Integer, Option<Integer>)> = Vec::new();
        if root["range_proof_e"].is_object() { rps.push(("range_proof_e".into(), &root["range_proof_e"], pow2(CS::le - 1) + 1u32, pow2(CS::le) - 1u32, secret("signature e"))); }
        if root["range_proof_r"].is_object() { rps.push(("range_proof_r".into(), &root["range_proof_r"], Integer::from(0), pow2(CS::ln) - 1u32, secret("commitment randomness r"))); }
        for key in ["range_proofs_commited_mi", "range_proofs_mi"] { if let Some(arr) = root[key].as_array() { for (k, rp) in arr.iter().enumerate() { let i = it.hidden.get(k).copied().unwrap_or(0); rps.push((format!("{}[{}]", key, k), rp, Integer::from(0), pow2(CS::lm) - 1u32, Some(it.m[i].clone()))); } } }
        for (name, rp, lo, hi, sec) in &rps {
            env.ctx.state(&[it.id.as_bytes(), name.as_bytes()]);
            if let Some(x) = sec { for (how, est) in boudot_estimates(rp, lo, hi) { env.ctx.step();
                if close(&est, x) { env.ctx.violation(&format!("C19:range-proof-response-reveals-secret:{}", name.split('[').next().unwrap_or(name)), &format!("{} / {}: the committed secret follows from a response divided by its challenge (estimate - secret = {})", name, how, (&est - x).complete()), env.case(&it.id, json!({"base": det0, "range_proof": name, "how": how}))); }
            } }
            env.ctx.class("range proof (derived secret)"); env.ctx.trace();
        }
        env.ctx.add_extra("challenges_recomputed", cs.len() as u64);
        if it.n == 2 && it.hidden == vec![1] { env.ctx.sample(json!({"proof": it.id, "leaves": vals.len(), "challenges": cs.iter().map(|c| c.0.clone()).collect::<Vec<_>>(), "secrets": secrets.iter().map(|s| s.0.clone()).collect::<Vec<_>>()})); }
    });
    // the length of a response must not depend on the secret it answers for: the same proof shape generated for hidden attributes
    // 0 and 1 and for hash-sized ones must have responses of (nearly) the same bit length
    let by_id: std::collections::HashMap<&str, &Item> = items.iter().map(|i| (i.id.as_str(), i)).collect();
    for it in &items {
        let base_id = match it.id.strip_suffix("/zero").or_else(|| it.id.strip_suffix("/one")) { Some(b) => b, None => continue };
        let base = match by_id.get(base_id) { Some(b) => *b, None => continue };
        if !env.want(&it.id) { continue; }
        for p in int_leaf_paths(&it.proof) {
            let l = p.last().unwrap(); let l = if l.chars().all(|c| c.is_ascii_digit()) && p.len() >= 2 { &p[p.len() - 2] } else { l };
            let resp = matches!(l.as_str(), "d" | "d_1" | "d_2" | "s1" | "s2" | "D_1" | "D_2") || (l.starts_with("s_") && l.len() == 3);
            if !resp { continue; }
            let (a, b) = match (json_get(&it.proof, &p).and_then(leaf_int), json_get(&base.proof, &p).and_then(leaf_int)) { (Some(a), Some(b)) => (a, b), _ => continue };
            env.ctx.state(&[it.id.as_bytes(), b"bits", p.join("/").as_bytes()]); env.ctx.step();
            let (ba, bb) = (a.significant_bits() as i64, b.significant_bits() as i64);
            if (ba - bb).abs() > 64 {
                env.ctx.violation(&format!("C19:response-length-depends-on-secret:/{}", path_class(&p)), &format!("/{} has {} bits when the hidden attribute is small ({}) and {} bits when it is hash-sized: the size of a hidden attribute can be read off the proof", p.join("/"), ba, it.id.rsplit('/').next().unwrap_or(""), bb), env.case(&it.id, json!({"proof": it.id, "compared_with": base.id, "leaf": p.join("/"), "bits": [ba, bb]})));
            }
            env.ctx.class("response length"); env.ctx.trace();
        }
    }
}
