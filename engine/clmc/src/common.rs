//! Shared set-up and helpers for the CL03 property checks: worlds (keys, bases, commitment keys), the attribute
//! alphabet, guarded calls, JSON views of proofs, big-integer helpers.
#![allow(non_snake_case)]
pub use mccore::Env;
use mccore::{guard_val, O};
use rug::{ops::Pow, Integer};
use serde::{de::DeserializeOwned, Serialize};
use serde_json::{json, Value};
use sha2::{Digest, Sha256};
use zkryptium::cl03::bases::Bases;
use zkryptium::cl03::ciphersuites::CLCiphersuite;
use zkryptium::cl03::keys::{CL03CommitmentPublicKey, CL03PublicKey, CL03SecretKey};
use zkryptium::keys::pair::KeyPair;
use zkryptium::schemes::algorithms::{Scheme, CL03};
use zkryptium::utils::message::cl03_message::CL03Message;

pub trait Suite: CLCiphersuite + Sync + Send + Clone + PartialEq + Eq + std::fmt::Debug {
    const NAME: &'static str;
}
impl Suite for zkryptium::cl03::ciphersuites::CL1024Sha256 { const NAME: &'static str = "CL1024"; }
impl Suite for zkryptium::cl03::ciphersuites::CL2048Sha256 { const NAME: &'static str = "CL2048"; }
impl Suite for zkryptium::cl03::ciphersuites::CL3072Sha256 { const NAME: &'static str = "CL3072"; }

pub struct World<CS: Suite> {
    pub pk: CL03PublicKey,
    pub sk: CL03SecretKey,
    pub bases: Bases,
    /// commitment key over the issuer modulus (what signature proofs need)
    pub cpk: CL03CommitmentPublicKey,
    /// commitment key with its own modulus (trusted party)
    pub cpk_own: CL03CommitmentPublicKey,
    pub n: usize,
    _m: std::marker::PhantomData<fn() -> CS>,
}

impl<CS: Suite> World<CS>
where
    CL03<CS>: Scheme<PubKey = CL03PublicKey, PrivKey = CL03SecretKey>,
{
    pub fn generate(n: usize) -> World<CS> {
        let kp = KeyPair::<CL03<CS>>::generate();
        let (sk, pk) = kp.into_parts();
        let bases = Bases::generate(&pk, n.max(1));
        let cpk = CL03CommitmentPublicKey::generate::<CS>(Some(pk.N.clone()), Some(n.max(1)));
        let cpk_own = CL03CommitmentPublicKey::generate::<CS>(None, Some(n.max(1)));
        World { pk, sk, bases, cpk, cpk_own, n, _m: std::marker::PhantomData }
    }
    /// A world over a FIXED issuer key pair (engine/clmc/fixtures/<suite>_keypair.json, made once by `clmc genkey <suite>` with the
    /// real KeyPair::generate): lets the quick tier reach a larger ciphersuite, whose key generation alone takes minutes
    /// with the generic-C GMP. Everything else (bases, commitment keys, signatures, every proof) is drawn afresh on every run.
    /// The key is re-validated on load (N = p q, p != q safe primes of the suite's size); None = unusable fixture.
    pub fn from_keypair_json(js: &str, n: usize) -> Option<World<CS>> where KeyPair<CL03<CS>>: DeserializeOwned {
        let kp: KeyPair<CL03<CS>> = serde_json::from_str(js).ok()?;
        let (sk, pk) = kp.into_parts();
        let safe = |x: &Integer| x.is_probably_prime(30) != rug::integer::IsPrime::No && Integer::from(x - 1u32).div_exact_u(2).is_probably_prime(30) != rug::integer::IsPrime::No && x.significant_bits() == CS::SECPARAM + 1;
        if Integer::from(&sk.p * &sk.q) != pk.N || sk.p == sk.q || !safe(&sk.p) || !safe(&sk.q) { return None; }
        let bases = Bases::generate(&pk, n.max(1));
        let cpk = CL03CommitmentPublicKey::generate::<CS>(Some(pk.N.clone()), Some(n.max(1)));
        // a second, independently drawn commitment key over the issuer modulus stands in for the trusted party's (own modulus = another key generation)
        let cpk_own = CL03CommitmentPublicKey::generate::<CS>(Some(pk.N.clone()), Some(n.max(1)));
        Some(World { pk, sk, bases, cpk, cpk_own, n, _m: std::marker::PhantomData })
    }
    pub fn phi(&self) -> Integer { (self.sk.p.clone() - 1u32) * (self.sk.q.clone() - 1u32) }
}

pub fn pow2(k: u32) -> Integer { Integer::from(2).pow(k) }

/// Attribute alphabet: 0, 1, 2^lm - 1, SHA-256("x"), 2^128.
pub fn attr_alphabet(lm: u32) -> Vec<(&'static str, Integer)> {
    let h = Sha256::digest(b"x");
    vec![("0", Integer::from(0)), ("1", Integer::from(1)), ("2^lm-1", pow2(lm) - 1u32), ("sha256(x)", Integer::from_digits(h.as_slice(), rug::integer::Order::MsfBe)), ("2^128", pow2(128))]
}
pub fn msg(v: &Integer) -> CL03Message { CL03Message::new(v.clone()) }
pub fn msgs(v: &[Integer]) -> Vec<CL03Message> { v.iter().map(msg).collect() }

/// n pairwise distinct attributes (hash-derived, < 2^lm)
pub fn distinct_attrs(seed: u64, label: &str, n: usize) -> Vec<Integer> {
    (0..n).map(|i| Integer::from_digits(&mccore::fill(seed, &format!("{}-{}", label, i), 32), rug::integer::Order::MsfBe)).collect()
}

pub fn modpow(b: &Integer, e: &Integer, n: &Integer) -> Integer {
    // negative exponents need an invertible base; all bases here are units
    match b.clone().pow_mod(e, n) { Ok(x) => x, Err(_) => Integer::from(0) }
}

/// A boolean-returning verifier call under catch_unwind: Ok(true) accepted, Ok(false) rejected, Panic = refusal by panic.
pub fn vcall(f: impl FnOnce() -> bool) -> O<bool> { guard_val(f) }
pub fn accepted(o: &O<bool>) -> bool { matches!(o, O::Ok(true)) }

pub fn to_json<T: Serialize>(x: &T) -> Value { serde_json::to_value(x).expect("serialize") }
pub fn from_json<T: DeserializeOwned>(v: &Value) -> Option<T> { serde_json::from_value(v.clone()).ok() }

pub fn leaf_int(v: &Value) -> Option<Integer> {
    let s = v.get("value")?.as_str()?;
    let radix = v.get("radix")?.as_i64()? as i32;
    Integer::from_str_radix(s, radix).ok()
}
pub fn int_leaf(i: &Integer) -> Value { json!({"radix": 16, "value": i.to_string_radix(16)}) }

/// The three perturbations of the property text for an integer leaf: +1, -1, 0.
pub fn leaf_perturbations(i: &Integer) -> Vec<(&'static str, Integer)> {
    let mut v = vec![("+1", i.clone() + 1u32), ("-1", i.clone() - 1u32)];
    if *i != 0 { v.push(("zero", Integer::from(0))); }
    // a change above the low 128 / 256 bits and just above the value's own length (a verifier that truncates, masks or
    // reduces a field before using it lets these through)
    v.push(("+2^128", i.clone() + pow2(128))); v.push(("+2^256", i.clone() + pow2(256)));
    v.push(("+2^(bits+1)", i.clone() + pow2(i.significant_bits() + 1)));
    v
}

/// Paths of all arrays inside a JSON value (with their lengths).
pub fn array_paths(v: &Value) -> Vec<(Vec<String>, usize)> {
    fn walk(v: &Value, pre: Vec<String>, out: &mut Vec<(Vec<String>, usize)>) {
        match v {
            Value::Object(m) => for (k, x) in m { let mut p = pre.clone(); p.push(k.clone()); walk(x, p, out); },
            Value::Array(a) => { out.push((pre.clone(), a.len())); for (i, x) in a.iter().enumerate() { let mut p = pre.clone(); p.push(i.to_string()); walk(x, p, out); } }
            _ => {}
        }
    }
    let mut out = Vec::new(); walk(v, vec![], &mut out); out
}
fn at_mut<'a>(v: &'a mut Value, path: &[String]) -> Option<&'a mut Value> {
    let mut cur = v;
    for k in path { cur = match cur { Value::Object(m) => m.get_mut(k)?, Value::Array(a) => a.get_mut(k.parse::<usize>().ok()?)?, _ => return None }; }
    Some(cur)
}
/// Structural (shape) edits of the arrays of a serialized proof: per array drop last / drop first / empty / duplicate last, and
/// jointly "drop the last element of every array of length k" for each k >= 1 (parallel vectors shortened together).
pub fn array_shape_edits(j: &Value) -> Vec<(String, Value)> {
    let arrays = array_paths(j);
    let mut out = Vec::new();
    for (p, len) in &arrays {
        if *len == 0 { continue; }
        let name = p.join("/");
        let mut x = j.clone(); if let Some(Value::Array(a)) = at_mut(&mut x, p) { a.pop(); } out.push((format!("/{} drop last", name), x));
        if *len > 1 { let mut x = j.clone(); if let Some(Value::Array(a)) = at_mut(&mut x, p) { a.remove(0); } out.push((format!("/{} drop first", name), x)); }
        if *len > 1 { let mut x = j.clone(); if let Some(Value::Array(a)) = at_mut(&mut x, p) { a.clear(); } out.push((format!("/{} emptied", name), x)); }
        let mut x = j.clone(); if let Some(Value::Array(a)) = at_mut(&mut x, p) { let l = a.last().cloned().unwrap(); a.push(l); } out.push((format!("/{} duplicate last", name), x));
    }
    let mut lens: Vec<usize> = arrays.iter().map(|a| a.1).filter(|&l| l >= 1).collect(); lens.sort(); lens.dedup();
    for k in lens {
        let group: Vec<&Vec<String>> = arrays.iter().filter(|a| a.1 == k).map(|a| &a.0).collect();
        if group.len() < 2 { continue; }
        // deepest paths first so that indexes of outer arrays stay valid
        let mut g = group.clone(); g.sort_by_key(|p| std::cmp::Reverse(p.len()));
        let mut x = j.clone(); for p in &g { if let Some(Value::Array(a)) = at_mut(&mut x, p) { a.pop(); } }
        out.push((format!("every array of length {} loses its last element ({} arrays)", k, g.len()), x));
        let mut x = j.clone(); for p in &g { if let Some(Value::Array(a)) = at_mut(&mut x, p) { if !a.is_empty() { a.remove(0); } } }
        out.push((format!("every array of length {} loses its first element ({} arrays)", k, g.len()), x));
    }
    out
}

/// +1 / -1 / zero plus, for every modulus the recipient knows, the same residue class with another representative (v + N).
pub fn leaf_perturbations_mod(i: &Integer, moduli: &[(&str, &Integer)]) -> Vec<(String, Integer)> {
    let mut v: Vec<(String, Integer)> = leaf_perturbations(i).into_iter().map(|(a, b)| (a.to_string(), b)).collect();
    for (nm, n) in moduli { v.push((format!("+{}", nm), i.clone() + *n)); v.push((format!("-{}", nm), i.clone() - *n)); }
    v
}

/// Sign-flip exploration. For every group-element leaf v (0 < v < N) of a serialized proof the edit v := N - v is tried on a POOL of
/// honest proofs of the same shape until one of them still verifies: whether a negated element passes depends on the parity of the
/// exponents it is raised to, which is random per proof, so the search is existential over the pool (a miss has probability
/// <= (3/4)^|pool| for the elements that can pass at all). Returns, per leaf path, the index of the first proof that accepted.
pub fn sign_flip_search(pool: &[Value], n: &Integer, verify: &(dyn Fn(usize, &Value) -> O<bool> + Sync)) -> Vec<(Vec<String>, Option<usize>, usize)> {
    let leaves: Vec<Vec<String>> = mccore::int_leaf_paths(&pool[0]).into_iter().filter(|p| { let v = leaf_int(mccore::json_get(&pool[0], p).unwrap()).unwrap(); v > 0 && v < *n && v.significant_bits() + 32 >= n.significant_bits() }).collect();
    let out = std::sync::Mutex::new(Vec::new());
    mccore::par_for(&leaves, |_, path| {
        let mut hit = None; let mut tried = 0;
        for (k, pr) in pool.iter().enumerate() {
            let v = match mccore::json_get(pr, path).and_then(leaf_int) { Some(v) => v, None => continue };
            if !(v > 0 && v < *n) { continue; }
            let mut x = pr.clone(); mccore::json_set(&mut x, path, int_leaf(&(n.clone() - &v)));
            tried += 1;
            if accepted(&verify(k, &x)) { hit = Some(k); break; }
        }
        out.lock().unwrap().push((path.clone(), hit, tried));
    });
    let mut v = out.into_inner().unwrap(); v.sort(); v
}

pub fn report_sign_flips(env: &Env, root: &str, what: &str, res: &[(Vec<String>, Option<usize>, usize)], pool: usize, det: Value) {
    for (path, hit, tried) in res {
        env.ctx.state(&[root.as_bytes(), b"sign-flip", path.join("/").as_bytes()]);
        env.ctx.steps(*tried as u64);
        if let Some(k) = hit {
            env.ctx.violation(&format!("{}:sign-flip:/{}:accepted", env.ctx.prop, mccore::path_class(path)), &format!("{}: the group element /{} replaced by its negation (N - v) still verifies (found on proof #{} of a pool of {})", what, path.join("/"), k, pool), env.case(root, json!({"base": det, "leaf": path.join("/"), "edit": "v := N - v", "pool": pool})));
            env.ctx.class("sign-flip:accepted");
        } else { env.ctx.class("sign-flip:rejected on the whole pool"); }
        env.ctx.trace();
    }
}

pub fn sd(x: &Integer) -> String { let s = x.to_string_radix(16); if s.len() > 40 { format!("{}..({} hex digits)", &s[..24], s.len()) } else { s } }

/// expectation helper for boolean verifiers
pub fn expect_bool(env: &Env, root: &str, what: &str, got: &O<bool>, want_accept: bool, panic_is_refusal: bool, sig_class: &str, detail: Value) -> bool {
    env.ctx.step();
    let ok = match got {
        O::Ok(b) => *b == want_accept,
        O::Panic(_) => !want_accept && panic_is_refusal,
        O::Err(_) => false,
    };
    if !ok {
        let kind = match got { O::Ok(true) => "accepted", O::Ok(false) => "rejected", _ => "panic" };
        env.ctx.violation(&format!("{}:{}:{}", env.ctx.prop, sig_class, kind), &format!("{}: expected {} got {}", what, if want_accept { "true" } else { "false" }, match got { O::Ok(b) => b.to_string(), o => o.describe() }), env.case(root, detail));
    }
    if let O::Panic(_) = got { if !want_accept { env.ctx.add_extra("refusals_by_panic", 1); } }
    ok
}
