//! C15 — CL03 proof of knowledge of a signature: complete and bound to its statement (form A, deviation bound <= 1).
#![allow(non_snake_case)]
use crate::common::*;
use mccore::{int_leaf_paths, json_get, json_set, par_for, path_class, subsets, O};
use rug::{Complete, Integer};
use serde_json::{json, Value};
use zkryptium::cl03::bases::Bases;
use zkryptium::cl03::keys::{CL03CommitmentPublicKey, CL03PublicKey, CL03SecretKey};
use zkryptium::schemes::algorithms::{Scheme, CL03};
use zkryptium::schemes::generics::{PoKSignature, Signature};

pub type Pok<CS> = PoKSignature<CL03<CS>>;

/// honest signature + proof for hidden set u
pub fn honest<CS: Suite>(w: &World<CS>, n: usize, m: &[Integer], u: &[usize]) -> O<(Signature<CL03<CS>>, Pok<CS>)>
where CL03<CS>: Scheme<PubKey = CL03PublicKey, PrivKey = CL03SecretKey>, CS::HashAlg: sha2::Digest { honest_with_key::<CS>(w, n, m, u, 0) }
/// `extra`: the verifier's commitment key has that many more generators than the credential has attributes
pub fn honest_with_key<CS: Suite>(w: &World<CS>, n: usize, m: &[Integer], u: &[usize], extra: usize) -> O<(Signature<CL03<CS>>, Pok<CS>)>
where CL03<CS>: Scheme<PubKey = CL03PublicKey, PrivKey = CL03SecretKey>, CS::HashAlg: sha2::Digest {
    let bases = Bases(w.bases.0[..n].to_vec());
    let cpk = CL03CommitmentPublicKey { N: w.cpk.N.clone(), h: w.cpk.h.clone(), g_bases: w.cpk.g_bases[..(n + extra).min(w.cpk.g_bases.len())].to_vec() };
    let mv = msgs(m);
    let u = u.to_vec();
    mccore::guard_val(move || {
        let sig = Signature::<CL03<CS>>::sign_multiattr(&w.pk, &w.sk, &bases, &mv);
        let p = Pok::<CS>::proof_gen(sig.cl03Signature(), &cpk, &w.pk, &bases, &mv, &u);
        (sig, p)
    })
}
pub fn verify<CS: Suite>(p: &Pok<CS>, cpk: &CL03CommitmentPublicKey, pk: &CL03PublicKey, bases: &Bases, revealed: &[Integer], u: &[usize], n: usize) -> O<bool>
where CL03<CS>: Scheme, CS::HashAlg: sha2::Digest { let rv = msgs(revealed); vcall(|| p.proof_verify(cpk, pk, bases, &rv, u, n)) }

pub fn run<CS: Suite>(env: &Env)
where CL03<CS>: Scheme<PubKey = CL03PublicKey, PrivKey = CL03SecretKey>, CS::HashAlg: sha2::Digest {
    let seed = env.ctx.seed;
    let maxn = if env.thorough() { 5 } else { 3 };
    let worlds: Vec<World<CS>> = { let v = std::sync::Mutex::new(Vec::new()); par_for(&[0, 1], |_, _| { let w = World::<CS>::generate(maxn + 1); v.lock().unwrap().push(w); }); v.into_inner().unwrap() };
    let (w, other) = (&worlds[0], &worlds[1]);
    #[derive(Clone)]
    enum Kind { Flow, Leaf(usize, usize), SignFlip, Shape, StatementSign }
    struct Root { id: String, n: usize, u: Vec<usize>, kind: Kind }
    let mut roots = Vec::new();
    for n in 1..=maxn { for u in subsets(n) { if n > 3 && !(u.len() <= 1 || u.len() >= n - 1) { continue; } roots.push(Root { id: format!("{}/n{}/hidden{:?}", CS::NAME, n, u), n, u, kind: Kind::Flow }); } }
    let mut classes: Vec<(usize, Vec<usize>)> = vec![(1, vec![]), (1, vec![0]), (2, vec![1]), (3, vec![0, 2])];
    if env.thorough() { classes.push((2, vec![0, 1])); classes.push((3, vec![0, 1, 2])); classes.push((3, vec![])); }
    for (n, u) in &classes { roots.push(Root { id: format!("{}/shape-edits/n{}/hidden{:?}", CS::NAME, n, u), n: *n, u: u.clone(), kind: Kind::Shape }); }
    roots.push(Root { id: format!("{}/shape-edits/n3/hidden[0, 1]", CS::NAME), n: 3, u: vec![0, 1], kind: Kind::Shape });
    for (n, u) in classes { let nch = 16; for ch in 0..nch { roots.push(Root { id: format!("{}/leaf-edits/n{}/hidden{:?}/chunk{}", CS::NAME, n, u, ch), n, u: u.clone(), kind: Kind::Leaf(ch, nch) }); } }
    roots.push(Root { id: format!("{}/sign-flip/n2/hidden[1]", CS::NAME), n: 2, u: vec![1], kind: Kind::SignFlip });
    roots.push(Root { id: format!("{}/statement-sign/n2/hidden[1]", CS::NAME), n: 2, u: vec![1], kind: Kind::StatementSign });
    env.ctx.set_rule("flows: n in 1..=3 (thorough 1..=5) x ALL subsets U of hidden positions (none, some, all), commitment key over the issuer modulus: sign_multiattr -> proof_gen(U) -> proof_verify(revealed, U, n) = true; statement edits (each => false, panic counts as refusal): each revealed attribute changed / dropped / duplicated, other signer key, other bases, other commitment key (other h, other g_i, own modulus, and every single field N / h / g_i altered alone), every single field of the signer key and every base altered alone, EVERY other hidden set U', n - 1, n + 1 and n + 2 (with and without extra revealed attributes). Leaf edits: EVERY integer leaf of the serialized proof +1 / -1 / zero / +N / sibling swap => false. Sign flips: every group-element leaf v := N - v, searched over a pool of 32 honest proofs => false. State = (flow, edit); non-trivial = the real verifier ran.");
    par_for(&roots, |_, r| {
        if !env.want(&r.id) || env.ctx.out_of_time() { return; }
        let n = r.n;
        let m = distinct_attrs(seed, "c15", n);
        let bases = Bases(w.bases.0[..n].to_vec());
        let cpk = CL03CommitmentPublicKey { N: w.cpk.N.clone(), h: w.cpk.h.clone(), g_bases: w.cpk.g_bases[..n].to_vec() };
        let det0 = json!({"suite": CS::NAME, "n": n, "hidden": r.u});
        let (_sig, p) = match honest::<CS>(w, n, &m, &r.u) { O::Ok(x) => x, o => { env.ctx.violation("C15:proof_gen-failed", &o.describe(), env.case(&r.id, det0)); return; } };
        env.ctx.steps(2);
        let revealed: Vec<Integer> = (0..n).filter(|i| !r.u.contains(i)).map(|i| m[i].clone()).collect();
        match &r.kind {
            Kind::Flow => {
                env.ctx.state(&[r.id.as_bytes()]);
                let ok = verify::<CS>(&p, &cpk, &w.pk, &bases, &revealed, &r.u, n);
                if !expect_bool(env, &r.id, "proof_verify(proof_gen(..))", &ok, true, false, "complete", det0.clone()) { env.ctx.trace(); return; }
                if from_json::<Pok<CS>>(&to_json(&p)).as_ref() != Some(&p) { env.ctx.violation("C15:roundtrip:json", "JSON round trip changes the proof", env.case(&r.id, det0.clone())); }
                env.ctx.class("complete"); env.ctx.trace();
                let mut rej = |name: String, cls: &str, cpk2: &CL03CommitmentPublicKey, pk2: &CL03PublicKey, b2: &Bases, rev2: &[Integer], u2: &[usize], n2: usize| {
                    if !env.ctx.state(&[r.id.as_bytes(), name.as_bytes()]) { return; }
                    let got = verify::<CS>(&p, cpk2, pk2, b2, rev2, u2, n2);
                    expect_bool(env, &r.id, &format!("proof_verify with [{}]", name), &got, false, true, &format!("binding:{}", cls), json!({"base": det0, "edit": name}));
                    env.ctx.class(&format!("reject:{}:{}", cls, if got.is_panic() { "panic" } else { "false" })); env.ctx.trace();
                };
                for k in 0..revealed.len() {
                    let mut r2 = revealed.clone(); r2[k] += 1u32; rej(format!("revealed[{}] += 1", k), "revealed-attribute", &cpk, &w.pk, &bases, &r2, &r.u, n);
                    // another representative of the same class modulo each public modulus, a negative value, a shifted value
                    for (nm, d) in [("+N", w.pk.N.clone()), ("+2N", w.pk.N.clone() * 2u32), ("-N", -w.pk.N.clone()), ("+N(commitment key)", cpk.N.clone()), ("+2^256", pow2(256)), ("+2^512", pow2(512))] { let mut rr = revealed.clone(); rr[k] += d; rej(format!("revealed[{}] {}", k, nm), "revealed-attribute", &cpk, &w.pk, &bases, &rr, &r.u, n); }
                    { let mut rr = revealed.clone(); rr[k] = -rr[k].clone(); if rr[k] != revealed[k] { rej(format!("revealed[{}] negated", k), "revealed-attribute", &cpk, &w.pk, &bases, &rr, &r.u, n); } }
                    let mut r3 = revealed.clone(); r3[k] = Integer::from(0); rej(format!("revealed[{}] := 0", k), "revealed-attribute", &cpk, &w.pk, &bases, &r3, &r.u, n);
                    let mut r4 = revealed.clone(); r4.remove(k); r4.push(Integer::from(7)); rej(format!("revealed[{}] removed (7 appended)", k), "revealed-attribute", &cpk, &w.pk, &bases, &r4, &r.u, n);
                    for k2 in (k + 1)..revealed.len() { let mut r5 = revealed.clone(); r5.swap(k, k2); rej(format!("revealed[{}] <-> revealed[{}]", k, k2), "revealed-attribute", &cpk, &w.pk, &bases, &r5, &r.u, n); }
                }
                // a longer revealed list: the verifier is told a value the credential does not contain
                { let mut r6 = revealed.clone(); r6.push(Integer::from(7)); rej("one more revealed attribute (7) appended, same n".into(), "revealed-attribute", &cpk, &w.pk, &bases, &r6, &r.u, n); }
                rej("other signer key".into(), "other-key", &cpk, &other.pk, &bases, &revealed, &r.u, n);
                let pk_b = CL03PublicKey { N: w.pk.N.clone(), b: w.pk.c.clone(), c: w.pk.b.clone() }; rej("signer key with b and c swapped".into(), "other-key", &cpk, &pk_b, &bases, &revealed, &r.u, n);
                let b2 = Bases(other.bases.0[..n].iter().map(|x| x.clone() % &w.pk.N).collect()); rej("other bases".into(), "other-bases", &cpk, &w.pk, &b2, &revealed, &r.u, n);
                if n >= 2 { let mut b3 = bases.clone(); b3.0.swap(0, 1); rej("bases 0 and 1 swapped".into(), "other-bases", &cpk, &w.pk, &b3, &revealed, &r.u, n); }
                let mut c2 = cpk.clone(); c2.h = (c2.h.clone() * &c2.h) % &c2.N; rej("commitment key: h := h^2".into(), "other-commitment-key", &c2, &w.pk, &bases, &revealed, &r.u, n);
                for gi in 0..n { let mut c3 = cpk.clone(); c3.g_bases[gi] = (c3.g_bases[gi].clone() * &c3.h) % &c3.N; rej(format!("commitment key: g_{} := g_{}*h", gi, gi), "other-commitment-key", &c3, &w.pk, &bases, &revealed, &r.u, n); }
                let own = CL03CommitmentPublicKey { N: w.cpk_own.N.clone(), h: w.cpk_own.h.clone(), g_bases: w.cpk_own.g_bases[..n].to_vec() }; rej("commitment key over another modulus".into(), "other-commitment-key", &own, &w.pk, &bases, &revealed, &r.u, n);
                for u2 in subsets(n) { if u2 == r.u { continue; } let rev2: Vec<Integer> = (0..n).filter(|i| !u2.contains(i)).map(|i| m[i].clone()).collect(); rej(format!("claimed hidden set {:?} (with the true attributes at the claimed revealed positions)", u2), "other-hidden-set", &cpk, &w.pk, &bases, &rev2, &u2, n); }
                { let bigger = Bases(w.bases.0[..n + 1].to_vec()); let cbig = CL03CommitmentPublicKey { N: w.cpk.N.clone(), h: w.cpk.h.clone(), g_bases: w.cpk.g_bases[..n + 1].to_vec() };
                  // (an extra revealed attribute 0 is NOT a different statement: a^0 = 1, the signature genuinely verifies on (m, 0); not judged)
                  let mut rev3 = revealed.clone(); rev3.push(Integer::from(5)); rej("n + 1 (extra revealed attribute 5)".into(), "attribute-count", &cbig, &w.pk, &bigger, &rev3, &r.u, n + 1); }
                // larger attribute counts WITHOUT supplying more revealed attributes (the revealed list is then too short for the claimed count)
                for extra in 1..=2usize { if w.bases.0.len() >= n + extra && w.cpk.g_bases.len() >= n + extra {
                    let bigger = Bases(w.bases.0[..n + extra].to_vec()); let cbig = CL03CommitmentPublicKey { N: w.cpk.N.clone(), h: w.cpk.h.clone(), g_bases: w.cpk.g_bases[..n + extra].to_vec() };
                    rej(format!("n + {} with the same revealed attributes", extra), "attribute-count", &cbig, &w.pk, &bigger, &revealed, &r.u, n + extra);
                } }
                // single-field edits of the commitment key (N alone, h alone, each g_i alone)
                for (nm, d) in [("N := N + 2", 2i32), ("N := N - 2", -2)] { let mut c4 = cpk.clone(); c4.N += d; rej(format!("commitment key: {}", nm), "other-commitment-key", &c4, &w.pk, &bases, &revealed, &r.u, n); }
                { let mut c5 = cpk.clone(); c5.N = w.cpk_own.N.clone(); rej("commitment key: N := another modulus (h, g_i kept)".into(), "other-commitment-key", &c5, &w.pk, &bases, &revealed, &r.u, n); }
                { let mut c6 = cpk.clone(); c6.h += 1u32; rej("commitment key: h := h + 1".into(), "other-commitment-key", &c6, &w.pk, &bases, &revealed, &r.u, n); }
                for gi in 0..n { let mut c7 = cpk.clone(); c7.g_bases[gi] += 1u32; rej(format!("commitment key: g_{} := g_{} + 1", gi, gi), "other-commitment-key", &c7, &w.pk, &bases, &revealed, &r.u, n); }
                // single-field edits of the signer key
                for (nm, f) in [("N", 0usize), ("b", 1), ("c", 2)] { let mut pk2 = w.pk.clone(); match f { 0 => pk2.N += 2u32, 1 => pk2.b += 1u32, _ => pk2.c += 1u32 }; rej(format!("signer key: {} altered", nm), "other-key", &cpk, &pk2, &bases, &revealed, &r.u, n); }
                for bi in 0..n { let mut b4 = bases.clone(); b4.0[bi] += 1u32; rej(format!("bases: a_{} := a_{} + 1", bi, bi), "other-bases", &cpk, &w.pk, &b4, &revealed, &r.u, n); }
                if n >= 1 { let u2: Vec<usize> = r.u.iter().copied().filter(|&i| i < n - 1).collect(); let rev2: Vec<Integer> = (0..n - 1).filter(|i| !u2.contains(i)).map(|i| m[i].clone()).collect(); if u2.len() == r.u.len() || !r.u.contains(&(n - 1)) { rej("n - 1".into(), "attribute-count", &cpk, &w.pk, &bases, &rev2, &u2, n - 1); } }
                // a holder who deviates: (e, s, v * a_k^j) satisfies the verification equation for the attribute m_k + j*e, which was
                // never signed (verify_multiattr refuses it because it is outside [0, 2^lm)); the proof generated from it must not be
                // accepted for that revealed value either
                { let sj = to_json(&_sig); let (e, s_, v) = (leaf_int(&sj["CL03"]["e"]).unwrap(), leaf_int(&sj["CL03"]["s"]).unwrap(), leaf_int(&sj["CL03"]["v"]).unwrap());
                  for (k, pos) in (0..n).filter(|i| !r.u.contains(i)).enumerate() { for jmul in [1i32, -1] {
                    let name = format!("cheating holder: revealed[{}] := m + ({})*e with v := v * a^({})", k, jmul, jmul);
                    if !env.ctx.state(&[r.id.as_bytes(), name.as_bytes()]) { continue; }
                    let v2 = (v.clone() * modpow(&bases.0[pos], &Integer::from(jmul), &w.pk.N)) % &w.pk.N;
                    let mut m2 = m.clone(); m2[pos] += e.clone() * jmul;
                    let forged: Option<Signature<CL03<CS>>> = from_json(&json!({"CL03": {"e": int_leaf(&e), "s": int_leaf(&s_), "v": int_leaf(&v2)}}));
                    let proof = forged.and_then(|fs| mccore::guard_val(|| Pok::<CS>::proof_gen(fs.cl03Signature(), &cpk, &w.pk, &bases, &msgs(&m2), &r.u)).ok()); env.ctx.step();
                    match proof { Some(q) => { let mut rev2 = revealed.clone(); rev2[k] = m2[pos].clone();
                            let got = verify::<CS>(&q, &cpk, &w.pk, &bases, &rev2, &r.u, n);
                            expect_bool(env, &r.id, &format!("proof_verify of a proof made from a shifted signature [{}]", name), &got, false, true, "cheating-holder:unsigned-revealed-attribute", json!({"base": det0, "edit": name})); env.ctx.class("cheating-holder:judged"); }
                        None => env.ctx.class("cheating-holder:no-proof") }
                    env.ctx.trace();
                  } } }
                // sub-proofs of ANOTHER honest proof (another credential, other attributes, same hidden set) put in place of this proof's
                if !r.u.is_empty() {
                    let m_o = distinct_attrs(seed, "c15-other-credential", n);
                    if let O::Ok((_s2, q)) = honest::<CS>(w, n, &m_o, &r.u) {
                        let qj = to_json(&q);
                        for (name, cls, keys) in [("per-attribute sub-proofs and range proofs taken from a proof about another credential", "sub-proof-transplant", vec!["proofs_commited_mi", "range_proofs_commited_mi"]),
                                             ("range proofs of the hidden attributes taken from a proof about another credential", "sub-proof-transplant:range-proofs-only", vec!["range_proofs_commited_mi"]),
                                             ("per-attribute sub-proofs (without their range proofs) taken from a proof about another credential", "sub-proof-transplant:sub-proofs-only", vec!["proofs_commited_mi"]),
                                             ("range proof of e taken from a proof about another credential", "sub-proof-transplant:range-proof-e", vec!["range_proof_e"])] {
                            let mut x = to_json(&p);
                            for key in keys { x["CL03"][key] = qj["CL03"][key].clone(); }
                            if env.ctx.state(&[r.id.as_bytes(), name.as_bytes()]) {
                                let got = match from_json::<Pok<CS>>(&x) { Some(z) => verify::<CS>(&z, &cpk, &w.pk, &bases, &revealed, &r.u, n), None => O::Ok(false) };
                                expect_bool(env, &r.id, &format!("proof_verify with [{}]", name), &got, false, true, cls, json!({"base": det0, "edit": name}));
                                env.ctx.class("sub-proof-transplant"); env.ctx.trace();
                            }
                        }
                        for key in ["proofs_commited_mi", "range_proofs_commited_mi"] { for k in 0..r.u.len() {
                            let name = format!("{}[{}] alone taken from a proof about another credential", key, k);
                            let mut x = to_json(&p); x["CL03"][key][k] = qj["CL03"][key][k].clone();
                            if env.ctx.state(&[r.id.as_bytes(), name.as_bytes()]) {
                                let got = match from_json::<Pok<CS>>(&x) { Some(z) => verify::<CS>(&z, &cpk, &w.pk, &bases, &revealed, &r.u, n), None => O::Ok(false) };
                                expect_bool(env, &r.id, &format!("proof_verify with [{}]", name), &got, false, true, "sub-proof-transplant:single-element", json!({"base": det0, "edit": name}));
                                env.ctx.class("sub-proof-transplant"); env.ctx.trace();
                            }
                        } }
                    }
                }
                if n == 3 && r.u == vec![0, 2] { env.ctx.sample(json!({"root": r.id, "edits": "revealed attributes, keys, bases, commitment keys, every other hidden set, n +- 1"})); }
            }
            Kind::SignFlip => {
                let k = if env.thorough() { 64 } else { 32 };
                let pool: Vec<Value> = { let v = std::sync::Mutex::new(vec![to_json(&p)]); par_for(&(1..k).collect::<Vec<_>>(), |_, _| { if let O::Ok((_s, q)) = honest::<CS>(w, n, &m, &r.u) { v.lock().unwrap().push(to_json(&q)); } }); v.into_inner().unwrap() };
                let res = sign_flip_search(&pool, &w.pk.N, &|_k, x| match from_json::<Pok<CS>>(x) { Some(q) => verify::<CS>(&q, &cpk, &w.pk, &bases, &revealed, &r.u, n), None => O::Ok(false) });
                report_sign_flips(env, &r.id, "signature proof of knowledge", &res, pool.len(), det0.clone());
            }
            Kind::StatementSign => {
                // the proof must not verify with a different signer key, bases or commitment key: here the ones that differ from the
                // true ones only in sign (N - x), which an even exponent loses; a pool of honest proofs is searched per element
                let k = if env.thorough() { 64 } else { 32 };
                let pool: Vec<Pok<CS>> = { let v = std::sync::Mutex::new(vec![p.clone()]); par_for(&(1..k).collect::<Vec<_>>(), |_, _| { if let O::Ok((_s, q)) = honest::<CS>(w, n, &m, &r.u) { v.lock().unwrap().push(q); } }); v.into_inner().unwrap() };
                let nn = &w.pk.N;
                let mut variants: Vec<(String, CL03CommitmentPublicKey, CL03PublicKey, Bases)> = Vec::new();
                for i in 0..n { let mut b = bases.clone(); b.0[i] = (nn - &b.0[i]).complete(); variants.push((format!("a_{} := N - a_{}", i, i), cpk.clone(), w.pk.clone(), b)); }
                for i in 0..n { let mut c = cpk.clone(); c.g_bases[i] = (&c.N - &c.g_bases[i]).complete(); variants.push((format!("g_{} := N - g_{}", i, i), c, w.pk.clone(), bases.clone())); }
                { let mut c = cpk.clone(); c.h = (&c.N - &c.h).complete(); variants.push(("h := N - h".into(), c, w.pk.clone(), bases.clone())); }
                { let mut k2 = w.pk.clone(); k2.b = (nn - &k2.b).complete(); variants.push(("b := N - b".into(), cpk.clone(), k2, bases.clone())); }
                { let mut k2 = w.pk.clone(); k2.c = (nn - &k2.c).complete(); variants.push(("c := N - c".into(), cpk.clone(), k2, bases.clone())); }
                for (nm, c2, k2, b2) in &variants {
                    env.ctx.state(&[r.id.as_bytes(), nm.as_bytes()]);
                    let mut hit = None;
                    for (i, q) in pool.iter().enumerate() { env.ctx.step(); if accepted(&verify::<CS>(q, c2, k2, b2, &revealed, &r.u, n)) { hit = Some(i); break; } }
                    if let Some(i) = hit { env.ctx.violation(&format!("C15:binding:statement-sign:{}:accepted", nm.split(' ').next().unwrap_or("").trim_end_matches(|c: char| c.is_ascii_digit())), &format!("an honest proof (#{} of a pool of {}) verifies with [{}]", i, pool.len(), nm), env.case(&r.id, json!({"base": det0, "edit": nm, "pool": pool.len()}))); }
                    env.ctx.class(if hit.is_some() { "statement-sign:accepted" } else { "statement-sign:rejected" }); env.ctx.trace();
                }
            }
            Kind::Shape => {
                let j = to_json(&p);
                for (name, x) in array_shape_edits(&j) {
                    if !env.ctx.state(&[r.id.as_bytes(), name.as_bytes()]) { continue; }
                    let p2: Option<Pok<CS>> = from_json(&x);
                    let got = match &p2 { Some(q) => verify::<CS>(q, &cpk, &w.pk, &bases, &revealed, &r.u, n), None => O::Ok(false) };
                    expect_bool(env, &r.id, &format!("proof_verify after shape edit [{}]", name), &got, false, true, "shape-edit", json!({"base": det0, "edit": name}));
                    env.ctx.class(&format!("shape:{}", match got { O::Ok(false) => "rejected", O::Ok(true) => "accepted", _ => "refused-by-panic" })); env.ctx.trace();
                }
            }
            Kind::Leaf(ch, nch) => {
                let j = to_json(&p);
                let leaves = int_leaf_paths(&j);
                for (li, path) in leaves.iter().enumerate() {
                    if li % nch != *ch { continue; }
                    let cur = leaf_int(json_get(&j, path).unwrap()).unwrap();
                    let mut edits: Vec<(String, Value)> = leaf_perturbations_mod(&cur, &[("N", &w.pk.N)]).into_iter().map(|(nm, v)| { let mut x = j.clone(); json_set(&mut x, path, int_leaf(&v)); (nm, x) }).collect();
                    if let Some(sib) = leaves.iter().skip(li + 1).find(|q| q.len() == path.len() && q[..q.len() - 1] == path[..path.len() - 1]) {
                        let ov = json_get(&j, sib).unwrap().clone();
                        if ov != *json_get(&j, path).unwrap() { let mut x = j.clone(); json_set(&mut x, path, ov); json_set(&mut x, sib, int_leaf(&cur)); edits.push((format!("swap with {}", sib.last().unwrap()), x)); }
                    }
                    for (nm, x) in edits {
                        let name = format!("/{} {}", path.join("/"), nm);
                        if !env.ctx.state(&[r.id.as_bytes(), name.as_bytes()]) { continue; }
                        let p2: Option<Pok<CS>> = from_json(&x);
                        let got = match &p2 { Some(q) => verify::<CS>(q, &cpk, &w.pk, &bases, &revealed, &r.u, n), None => O::Ok(false) };
                        expect_bool(env, &r.id, &format!("proof_verify after leaf edit {}", name), &got, false, true, &format!("leaf-edit{}:/{}", if nm.contains('N') { ":other-representative" } else { "" }, path_class(path)), json!({"base": det0, "leaf": path.join("/"), "edit": nm}));
                        env.ctx.class(&format!("leaf:{}", match got { O::Ok(false) => "rejected", O::Ok(true) => "accepted", _ => "refused-by-panic" })); env.ctx.trace();
                    }
                }
                env.ctx.extra(&format!("leaves:{}", r.id.rsplitn(2, "/chunk").last().unwrap_or("")), json!(leaves.len()));
            }
        }
    });
}
