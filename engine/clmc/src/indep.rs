//! Bridge to the independent (non-GMP) checker scripts/indep_cl.py (Python integers + sympy).
use crate::common::Env;
use serde_json::{json, Value};
use std::io::Write;

pub fn run_py(env: &Env, items: &[Value]) -> Option<Vec<Value>> {
    let mut child = std::process::Command::new("python3-vt").arg(format!("{}/scripts/indep_cl.py", mccore::verif_root())).stdin(std::process::Stdio::piped()).stdout(std::process::Stdio::piped()).stderr(std::process::Stdio::piped()).spawn().ok()?;
    child.stdin.take()?.write_all(serde_json::to_string(items).ok()?.as_bytes()).ok()?;
    let o = child.wait_with_output().ok()?;
    match serde_json::from_slice::<Vec<Value>>(&o.stdout) { Ok(v) => Some(v), Err(_) => { env.machinery(&format!("indep_cl.py failed: {}", String::from_utf8_lossy(&o.stderr).chars().take(300).collect::<String>())); None } }
}

/// e values must be prime with the exact bit length; keys must be N = p*q with distinct safe primes of the configured size.
pub fn check_primes(env: &Env, items: &[Value]) {
    if items.is_empty() { return; }
    let res = match run_py(env, items) { Some(r) => r, None => { env.machinery("independent checker did not answer"); return; } };
    for (it, r) in items.iter().zip(res.iter()) {
        env.ctx.step();
        env.ctx.state(&[b"indep", it.to_string().as_bytes()]);
        if r["ok"] != true {
            let kind = it["kind"].as_str().unwrap_or("?");
            env.ctx.violation(&format!("{}:independent-check:{}:{}", env.ctx.prop, kind, r["failed"].as_str().unwrap_or("?")), &format!("independent big-integer check failed for {}: {}", it["root"], r["failed"]), env.case(it["root"].as_str().unwrap_or(""), json!({"item": it, "result": r})));
        }
        env.ctx.class(&format!("independent:{}", it["kind"].as_str().unwrap_or("?")));
        env.ctx.trace();
    }
    env.ctx.extra("independent_checks", json!(items.len()));
}
