use crate::common::*;
use zkryptium::cl03::keys::{CL03PublicKey, CL03SecretKey};
use zkryptium::schemes::algorithms::{Scheme, CL03};
pub fn run<CS: Suite>(_env: &Env) where CL03<CS>: Scheme<PubKey = CL03PublicKey, PrivKey = CL03SecretKey>, CS::HashAlg: sha2::Digest {}
