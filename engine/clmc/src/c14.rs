//! C14 — CL03 blind issuance works for every hidden-attribute set and is gated (form A, deviation bound <= 1).
#![allow(non_snake_case)]
use crate::common::*;
use mccore::{int_leaf_paths, json_get, json_set, par_for, path_class, subsets, O};
use rug::Integer;
use serde_json::{json, Value};
use zkryptium::cl03::bases::Bases;
use zkryptium::cl03::commitment::CL03Commitment;
use zkryptium::cl03::keys::{CL03CommitmentPublicKey, CL03PublicKey, CL03SecretKey};
use zkryptium::schemes::algorithms::{Scheme, CL03};
use zkryptium::schemes::generics::{BlindSignature, Commitment, Signature, ZKPoK};
use zkryptium::utils::message::cl03_message::CL03Message;

pub struct Flow<CS: Suite> where CL03<CS>: Scheme {
    pub m: Vec<Integer>,
    pub u: Vec<usize>,
    pub revealed_idx: Vec<usize>,
    pub c: Commitment<CL03<CS>>,
    pub c_trusted: Option<Commitment<CL03<CS>>>,
    pub zkpok: ZKPoK<CL03<CS>>,
}

/// honest holder side of an issuance: commitment(s) + proof of knowledge
pub fn holder<CS: Suite>(w: &World<CS>, n: usize, m: &[Integer], u: &[usize], trusted: bool) -> O<Flow<CS>>
where CL03<CS>: Scheme<PubKey = CL03PublicKey, PrivKey = CL03SecretKey>, CS::HashAlg: sha2::Digest {
    let bases = Bases(w.bases.0[..n].to_vec());
    let mv = msgs(m);
    let u = u.to_vec();
    mccore::guard_val(move || {
        let c = Commitment::<CL03<CS>>::commit_with_pk(&mv, &w.pk, &bases, Some(&u));
        let c_trusted = if trusted { Some(Commitment::<CL03<CS>>::commit_with_commitment_pk(&mv, &w.cpk_own, Some(&u))) } else { None };
        let zkpok = ZKPoK::<CL03<CS>>::generate_proof(&mv, c.cl03Commitment(), c_trusted.as_ref().map(|x| x.cl03Commitment()), &w.pk, &bases, if trusted { Some(&w.cpk_own) } else { None }, &u);
        let revealed_idx: Vec<usize> = (0..mv.len()).filter(|i| !u.contains(i)).collect();
        Flow { m: mv.iter().map(|x| x.value.clone()).collect(), u, revealed_idx, c, c_trusted, zkpok }
    })
}

pub fn issuer_verifies<CS: Suite>(zk: &ZKPoK<CL03<CS>>, c: &CL03Commitment, ct: Option<&CL03Commitment>, pk: &CL03PublicKey, bases: &Bases, cpk: Option<&CL03CommitmentPublicKey>, u: &[usize]) -> O<bool>
where CL03<CS>: Scheme, CS::HashAlg: sha2::Digest { vcall(|| zk.verify_proof(c, ct, pk, bases, cpk, u)) }

pub fn run<CS: Suite>(env: &Env)
where CL03<CS>: Scheme<PubKey = CL03PublicKey, PrivKey = CL03SecretKey>, CS::HashAlg: sha2::Digest {
    let seed = env.ctx.seed;
    let maxn = if env.thorough() { 5 } else { 3 };
    let worlds: Vec<World<CS>> = { let v = std::sync::Mutex::new(Vec::new()); par_for(&[0, 1], |_, _| { let w = World::<CS>::generate(maxn); v.lock().unwrap().push(w); }); v.into_inner().unwrap() };
    let (w, other) = (&worlds[0], &worlds[1]);
    #[derive(Clone)]
    enum Kind { Flow, Leaf(usize, usize), SignFlip, Shape } // Leaf(chunk, nchunks)
    struct Root { id: String, n: usize, u: Vec<usize>, trusted: bool, kind: Kind }
    let mut roots = Vec::new();
    for n in 1..=maxn { for u in subsets(n) { if u.is_empty() { continue; } for trusted in [false, true] {
        if n > 3 && trusted && u.len() != 1 && u.len() != n { continue; }
        roots.push(Root { id: format!("{}/n{}/hidden{:?}/{}", CS::NAME, n, u, if trusted { "trusted" } else { "untrusted" }), n, u: u.clone(), trusted, kind: Kind::Flow });
    } } }
    // boundary attribute values (0, 1, 2^lm - 1) at revealed and at hidden positions
    for (n, u) in [(2usize, vec![0usize]), (2, vec![1]), (3, vec![1])] { for bv in ["zero", "one", "max"] { for at in ["revealed", "hidden"] {
        roots.push(Root { id: format!("{}/n{}/hidden{:?}/untrusted/boundary-{}-{}", CS::NAME, n, u, bv, at), n, u: u.clone(), trusted: false, kind: Kind::Flow });
    } } }
    // leaf edits: one proof per (n, |U|) class (untrusted), plus one trusted proof; split in chunks for parallelism
    let mut classes: Vec<(usize, Vec<usize>, bool)> = vec![];
    for n in 1..=3usize { for k in 1..=n { classes.push((n, (n - k..n).collect(), false)); } }
    classes.push((2, vec![1], true));
    if !env.thorough() { classes.retain(|c| c.0 <= 2 || c.1.len() == 1); }
    for (n, u, t) in &classes { roots.push(Root { id: format!("{}/shape-edits/n{}/hidden{:?}/{}", CS::NAME, n, u, if *t { "trusted" } else { "untrusted" }), n: *n, u: u.clone(), trusted: *t, kind: Kind::Shape }); }
    for (n, u, t) in classes { let nch = 8; for ch in 0..nch { roots.push(Root { id: format!("{}/leaf-edits/n{}/hidden{:?}/{}/chunk{}", CS::NAME, n, u, if t { "trusted" } else { "untrusted" }, ch), n, u: u.clone(), trusted: t, kind: Kind::Leaf(ch, nch) }); } }
    roots.push(Root { id: format!("{}/sign-flip/n2/hidden[1]/untrusted", CS::NAME), n: 2, u: vec![1], trusted: false, kind: Kind::SignFlip });
    env.ctx.set_rule("flows: n in 1..=3 (thorough 1..=5) attributes x ALL non-empty hidden-position subsets U x {no trusted party, trusted-party commitment over an own-modulus key}: commit_with_pk(U) -> generate_proof -> verify_proof = true -> blind_sign -> unblind_sign -> verify_multiattr(full vector) = true; per flow every mismatch: commitment to other attributes, EVERY other subset U' as claimed hidden set, other bases, other issuer key, other/missing trusted commitment => verify_proof = false and blind_sign returns no signature (its panic is the documented refusal); update_signature for every revealed position => valid on the updated vector only. Leaf edits: one proof per (n, |U|) class: EVERY integer leaf of the serialized ZKPoK +1 / -1 / zero / +N / swapped with its sibling => issuer refuses; sign flips: every group-element leaf v := N - v, searched over a pool of 32 honest proofs => issuer refuses. State = (flow, edit); non-trivial = the real issuer-side verifier ran.");
    par_for(&roots, |_, r| {
        if !env.want(&r.id) || env.ctx.out_of_time() { return; }
        let n = r.n;
        let mut m = distinct_attrs(seed, "c14", n);
        if let Some(tag) = r.id.rsplit('/').next().filter(|t| t.starts_with("boundary-")) {
            let val = if tag.contains("zero") { Integer::from(0) } else if tag.contains("one") { Integer::from(1) } else { pow2(CS::lm) - 1u32 };
            let pos = if tag.ends_with("hidden") { r.u[0] } else { (0..n).find(|i| !r.u.contains(i)).unwrap_or(0) };
            m[pos] = val;
        }
        let bases = Bases(w.bases.0[..n].to_vec());
        let det0 = json!({"suite": CS::NAME, "n": n, "hidden": r.u, "trusted_party": r.trusted});
        let f = match holder::<CS>(w, n, &m, &r.u, r.trusted) { O::Ok(f) => f, o => { env.ctx.violation("C14:holder-side-failed", &o.describe(), env.case(&r.id, det0)); return; } };
        env.ctx.steps(2);
        let cpk = if r.trusted { Some(&w.cpk_own) } else { None };
        let ct = f.c_trusted.as_ref().map(|x| x.cl03Commitment());
        match &r.kind {
            Kind::Flow => {
                env.ctx.state(&[r.id.as_bytes()]);
                let ok = issuer_verifies::<CS>(&f.zkpok, f.c.cl03Commitment(), ct, &w.pk, &bases, cpk, &r.u);
                if !expect_bool(env, &r.id, "verify_proof(generate_proof(..))", &ok, true, false, "complete:verify_proof", det0.clone()) { env.ctx.trace(); return; }
                let rm: Vec<CL03Message> = f.revealed_idx.iter().map(|&i| msg(&m[i])).collect();
                let issue = |rm: &[CL03Message]| -> O<Signature<CL03<CS>>> { mccore::guard_val(|| {
                    let bs = BlindSignature::<CL03<CS>>::blind_sign(&w.pk, &w.sk, &bases, &f.zkpok, if rm.is_empty() { None } else { Some(rm) }, f.c.cl03Commitment(), ct, cpk, &r.u, if rm.is_empty() { None } else { Some(&f.revealed_idx) });
                    bs.unblind_sign(&f.c)
                }) };
                let sig = issue(&rm); env.ctx.step();
                match &sig {
                    O::Ok(s) => { let mv = msgs(&m); expect_bool(env, &r.id, "verify_multiattr(unblind(blind_sign(..)), full vector)", &vcall(|| s.verify_multiattr(&w.pk, &bases, &mv)), true, false, "complete:unblinded-signature", det0.clone()); }
                    o => env.ctx.violation("C14:complete:blind_sign:refused", &format!("issuer refused an honest request: {}", o.describe()), env.case(&r.id, det0.clone())),
                }
                env.ctx.class("complete"); env.ctx.trace();
                // update: change each revealed attribute, re-issue with the same commitment, valid on the updated vector only
                for (k, &pos) in f.revealed_idx.iter().enumerate() {
                    env.ctx.state(&[r.id.as_bytes(), format!("update{}", pos).as_bytes()]);
                    let mut m2 = m.clone(); m2[pos] = m2[pos].clone() ^ Integer::from(1u32 << 7);
                    let mut rm2 = rm.clone(); rm2[k] = msg(&m2[pos]);
                    let upd = mccore::guard_val(|| {
                        let bs = BlindSignature::<CL03<CS>>::blind_sign(&w.pk, &w.sk, &bases, &f.zkpok, Some(&rm), f.c.cl03Commitment(), ct, cpk, &r.u, Some(&f.revealed_idx));
                        bs.update_signature(Some(&rm2), f.c.cl03Commitment(), &w.sk, &w.pk, &bases, Some(&f.revealed_idx)).unblind_sign(&f.c)
                    }); env.ctx.step();
                    match upd { O::Ok(s) => { let (a, b) = (msgs(&m2), msgs(&m));
                            expect_bool(env, &r.id, &format!("updated signature (position {}) verifies on the updated vector", pos), &vcall(|| s.verify_multiattr(&w.pk, &bases, &a)), true, false, "update:new-vector", json!({"base": det0, "updated_position": pos}));
                            expect_bool(env, &r.id, &format!("updated signature (position {}) must not verify on the old vector", pos), &vcall(|| s.verify_multiattr(&w.pk, &bases, &b)), false, true, "update:old-vector", json!({"base": det0, "updated_position": pos})); }
                        o => env.ctx.violation("C14:update:failed", &o.describe(), env.case(&r.id, json!({"base": det0, "updated_position": pos}))) }
                    env.ctx.class("update"); env.ctx.trace();
                }
                // the revealed attributes given in another order (index list and message list permuted together): same statement
                if f.revealed_idx.len() >= 2 {
                    let mut orders: Vec<Vec<usize>> = vec![(0..rm.len()).rev().collect()];
                    if rm.len() >= 3 { orders.push({ let mut o: Vec<usize> = (0..rm.len()).collect(); o.rotate_left(1); o }); }
                    for ord in orders {
                        let ridx: Vec<usize> = ord.iter().map(|&k| f.revealed_idx[k]).collect();
                        let rmo: Vec<CL03Message> = ord.iter().map(|&k| rm[k].clone()).collect();
                        env.ctx.state(&[r.id.as_bytes(), format!("revealed-order{:?}", ridx).as_bytes()]);
                        let deto = json!({"base": det0, "revealed_index_list": ridx});
                        let issued = mccore::guard_val(|| BlindSignature::<CL03<CS>>::blind_sign(&w.pk, &w.sk, &bases, &f.zkpok, Some(&rmo), f.c.cl03Commitment(), ct, cpk, &r.u, Some(&ridx))); env.ctx.step();
                        match issued {
                            O::Ok(bs) => {
                                let mv = msgs(&m);
                                expect_bool(env, &r.id, &format!("signature issued with revealed list {:?} verifies on the full vector", ridx), &vcall(|| bs.unblind_sign(&f.c).verify_multiattr(&w.pk, &bases, &mv)), true, false, "complete:revealed-order", deto.clone());
                                // update the attribute listed first, same (unordered) lists
                                let pos = ridx[0];
                                let mut m2 = m.clone(); m2[pos] = m2[pos].clone() ^ Integer::from(1u32 << 9);
                                let mut rm2 = rmo.clone(); rm2[0] = msg(&m2[pos]);
                                let upd = mccore::guard_val(|| bs.update_signature(Some(&rm2), f.c.cl03Commitment(), &w.sk, &w.pk, &bases, Some(&ridx)).unblind_sign(&f.c)); env.ctx.step();
                                match upd { O::Ok(s) => { let (a, b) = (msgs(&m2), msgs(&m));
                                        expect_bool(env, &r.id, &format!("update with revealed list {:?}: verifies on the updated vector", ridx), &vcall(|| s.verify_multiattr(&w.pk, &bases, &a)), true, false, "update:revealed-order:new-vector", deto.clone());
                                        expect_bool(env, &r.id, &format!("update with revealed list {:?}: must not verify on the old vector", ridx), &vcall(|| s.verify_multiattr(&w.pk, &bases, &b)), false, true, "update:revealed-order:old-vector", deto.clone());
                                        let mut sw = m2.clone(); sw.swap(ridx[0], ridx[1]);
                                        if sw != m2 { expect_bool(env, &r.id, &format!("update with revealed list {:?}: must not verify with two revealed values swapped", ridx), &vcall(|| s.verify_multiattr(&w.pk, &bases, &msgs(&sw))), false, true, "update:revealed-order:swapped-vector", deto.clone()); } }
                                    o => env.ctx.violation("C14:update:revealed-order:failed", &o.describe(), env.case(&r.id, deto.clone())) }
                            }
                            o => env.ctx.violation("C14:complete:revealed-order:refused", &format!("issuer refused an honest request whose revealed attributes are listed as {:?}: {}", ridx, o.describe()), env.case(&r.id, deto.clone())),
                        }
                        env.ctx.class("revealed-order"); env.ctx.trace();
                    }
                }
                // statement mismatches: the issuer must refuse (verify_proof false / panic; blind_sign returns nothing)
                let mut refuse = |name: String, cls: &str, zk: &ZKPoK<CL03<CS>>, c: &CL03Commitment, ct2: Option<&CL03Commitment>, pk: &CL03PublicKey, sk: &CL03SecretKey, b: &Bases, cpk2: Option<&CL03CommitmentPublicKey>, u2: &[usize]| {
                    if !env.ctx.state(&[r.id.as_bytes(), name.as_bytes()]) { return; }
                    let got = issuer_verifies::<CS>(zk, c, ct2, pk, b, cpk2, u2);
                    expect_bool(env, &r.id, &format!("verify_proof with [{}]", name), &got, false, true, &format!("gate:{}", cls), json!({"base": det0, "mismatch": name}));
                    let ridx: Vec<usize> = (0..n).filter(|i| !u2.contains(i)).collect();
                    let rm2: Vec<CL03Message> = ridx.iter().map(|&i| msg(&m[i])).collect();
                    let bs = mccore::guard_val(|| BlindSignature::<CL03<CS>>::blind_sign(pk, sk, b, zk, if rm2.is_empty() { None } else { Some(&rm2) }, c, ct2, cpk2, u2, if rm2.is_empty() { None } else { Some(&ridx) })); env.ctx.step();
                    if bs.is_ok() { env.ctx.violation(&format!("C14:gate:{}:signed", cls), &format!("blind_sign issued a signature with [{}]", name), env.case(&r.id, json!({"base": det0, "mismatch": name}))); }
                    env.ctx.class(&format!("refuse:{}", cls)); env.ctx.trace();
                };
                let m_other = distinct_attrs(seed, "c14-other", n);
                let mvo = msgs(&m_other);
                let c_other = Commitment::<CL03<CS>>::commit_with_pk(&mvo, &w.pk, &bases, Some(&r.u));
                refuse("commitment to other attributes".into(), "other-commitment", &f.zkpok, c_other.cl03Commitment(), ct, &w.pk, &w.sk, &bases, cpk, &r.u);
                for u2 in subsets(n) { if u2 == r.u || u2.is_empty() { continue; } refuse(format!("claimed hidden set {:?}", u2), "other-hidden-set", &f.zkpok, f.c.cl03Commitment(), ct, &w.pk, &w.sk, &bases, cpk, &u2); }
                let b2 = Bases(other.bases.0[..n].iter().map(|x| x.clone() % &w.pk.N).collect());
                refuse("other bases".into(), "other-bases", &f.zkpok, f.c.cl03Commitment(), ct, &w.pk, &w.sk, &b2, cpk, &r.u);
                refuse("other issuer key".into(), "other-key", &f.zkpok, f.c.cl03Commitment(), ct, &other.pk, &other.sk, &bases, cpk, &r.u);
                if r.trusted {
                    let mv = msgs(&m);
                    let ct_other = Commitment::<CL03<CS>>::commit_with_commitment_pk(&mvo, &w.cpk_own, Some(&r.u));
                    refuse("trusted commitment to other attributes".into(), "other-trusted-commitment", &f.zkpok, f.c.cl03Commitment(), Some(ct_other.cl03Commitment()), &w.pk, &w.sk, &bases, cpk, &r.u);
                    let ct_key = Commitment::<CL03<CS>>::commit_with_commitment_pk(&mv, &other.cpk_own, Some(&r.u));
                    refuse("trusted commitment under another commitment key".into(), "other-trusted-key", &f.zkpok, f.c.cl03Commitment(), Some(ct_key.cl03Commitment()), &w.pk, &w.sk, &bases, Some(&other.cpk_own), &r.u);
                } else {
                    // a proof made WITHOUT the trusted-party part presented to an issuer that requires one
                    let mv = msgs(&m);
                    let ct_new = Commitment::<CL03<CS>>::commit_with_commitment_pk(&mv, &w.cpk_own, Some(&r.u));
                    refuse("issuer requires a trusted commitment the proof does not cover".into(), "missing-trusted-part", &f.zkpok, f.c.cl03Commitment(), Some(ct_new.cl03Commitment()), &w.pk, &w.sk, &bases, Some(&w.cpk_own), &r.u);
                }
                // sub-proofs of ANOTHER honest request (other hidden attributes, same positions) put in place of this proof's
                {
                    if let O::Ok(f2) = holder::<CS>(w, n, &m_other, &r.u, r.trusted) {
                        let qj = to_json(&f2.zkpok);
                        for (what, cls, keys) in [("per-attribute sub-proofs and their range proofs", "sub-proof-transplant", vec!["proofs_commited_mi", "range_proofs_mi"]),
                                                  ("per-attribute sub-proofs, randomness proof and all range proofs", "sub-proof-transplant", vec!["proofs_commited_mi", "range_proofs_mi", "proof_r", "range_proof_r"]),
                                                  ("range proofs of the hidden attributes (without the sub-proofs they belong to)", "sub-proof-transplant:range-proofs-only", vec!["range_proofs_mi"]),
                                                  ("range proof of the randomness (without the proof it belongs to)", "sub-proof-transplant:range-proof-r-only", vec!["range_proof_r"]),
                                                  ("randomness proof and its range proof", "sub-proof-transplant-randomness", vec!["proof_r", "range_proof_r"])] {
                            let mut x = to_json(&f.zkpok);
                            for key in keys { x["CL03"][key] = qj["CL03"][key].clone(); }
                            if let Some(z) = from_json::<ZKPoK<CL03<CS>>>(&x) { refuse(format!("{} taken from a proof about another commitment", what), cls, &z, f.c.cl03Commitment(), ct, &w.pk, &w.sk, &bases, cpk, &r.u); }
                        }
                        // one element of one vector only (a check that looks at the vectors as a whole must not be satisfied by the rest)
                        for key in ["proofs_commited_mi", "range_proofs_mi"] { for k in 0..r.u.len() {
                            let mut x = to_json(&f.zkpok);
                            x["CL03"][key][k] = qj["CL03"][key][k].clone();
                            if let Some(z) = from_json::<ZKPoK<CL03<CS>>>(&x) { refuse(format!("{}[{}] alone taken from a proof about another commitment", key, k), "sub-proof-transplant:single-element", &z, f.c.cl03Commitment(), ct, &w.pk, &w.sk, &bases, cpk, &r.u); }
                        } }
                    }
                }
                // the issuer's own inputs in other spellings / inconsistent combinations
                if r.trusted {
                    let ctv = ct.unwrap();
                    let n2 = &w.cpk_own.N;
                    let plus = CL03Commitment { value: ctv.value.clone() + n2, randomness: ctv.randomness.clone() };
                    refuse("trusted commitment given as C_trusted + N'".into(), "trusted-representative", &f.zkpok, f.c.cl03Commitment(), Some(&plus), &w.pk, &w.sk, &bases, cpk, &r.u);
                    // a trusted commitment to OTHER attributes with the commitment key left out: the check must not be skipped silently
                    let ct_other = Commitment::<CL03<CS>>::commit_with_commitment_pk(&mvo, &w.cpk_own, Some(&r.u));
                    refuse("trusted commitment to other attributes, commitment key not supplied".into(), "trusted-without-key", &f.zkpok, f.c.cl03Commitment(), Some(ct_other.cl03Commitment()), &w.pk, &w.sk, &bases, None, &r.u);
                }
                { let cv = f.c.cl03Commitment(); let plus = CL03Commitment { value: cv.value.clone() + &w.pk.N, randomness: cv.randomness.clone() };
                  refuse("commitment given as C + N".into(), "commitment-representative", &f.zkpok, &plus, ct, &w.pk, &w.sk, &bases, cpk, &r.u); }
                if n == 2 && r.u == vec![1] && !r.trusted { env.ctx.sample(json!({"root": r.id, "flow": "commit_with_pk -> generate_proof -> verify_proof -> blind_sign -> unblind_sign -> verify_multiattr; mismatches: other commitment, every other hidden set, other bases, other key, trusted part"})); }
            }
            Kind::SignFlip => {
                let k = if env.thorough() { 64 } else { 32 };
                let flows: Vec<Flow<CS>> = { let v = std::sync::Mutex::new(Vec::new()); par_for(&(0..k).collect::<Vec<_>>(), |_, _| { if let O::Ok(x) = holder::<CS>(w, n, &m, &r.u, false) { v.lock().unwrap().push(x); } }); v.into_inner().unwrap() };
                if flows.is_empty() { env.machinery("sign-flip pool empty"); return; }
                let pool: Vec<Value> = flows.iter().map(|x| to_json(&x.zkpok)).collect();
                let res = sign_flip_search(&pool, &w.pk.N, &|k, x| match from_json::<ZKPoK<CL03<CS>>>(x) { Some(z) => issuer_verifies::<CS>(&z, flows[k].c.cl03Commitment(), None, &w.pk, &bases, None, &r.u), None => O::Ok(false) });
                report_sign_flips(env, &r.id, "issuance proof", &res, pool.len(), det0.clone());
            }
            Kind::Shape => {
                let j = to_json(&f.zkpok);
                let rm: Vec<CL03Message> = f.revealed_idx.iter().map(|&i| msg(&m[i])).collect();
                for (name, x) in array_shape_edits(&j) {
                    if !env.ctx.state(&[r.id.as_bytes(), name.as_bytes()]) { continue; }
                    let zk2: Option<ZKPoK<CL03<CS>>> = from_json(&x);
                    let got = match &zk2 { Some(z) => issuer_verifies::<CS>(z, f.c.cl03Commitment(), ct, &w.pk, &bases, cpk, &r.u), None => O::Ok(false) };
                    expect_bool(env, &r.id, &format!("verify_proof after shape edit [{}]", name), &got, false, true, "shape-edit", json!({"base": det0, "edit": name}));
                    if let Some(z) = &zk2 {
                        let bs = mccore::guard_val(|| BlindSignature::<CL03<CS>>::blind_sign(&w.pk, &w.sk, &bases, z, if rm.is_empty() { None } else { Some(&rm) }, f.c.cl03Commitment(), ct, cpk, &r.u, if rm.is_empty() { None } else { Some(&f.revealed_idx) })); env.ctx.step();
                        if bs.is_ok() { env.ctx.violation("C14:gate:shape-edit:signed", &format!("blind_sign issued a signature for a proof with [{}]", name), env.case(&r.id, json!({"base": det0, "edit": name}))); }
                    }
                    env.ctx.class(&format!("shape:{}", match got { O::Ok(false) => "rejected", O::Ok(true) => "accepted", _ => "refused-by-panic" })); env.ctx.trace();
                }
            }
            Kind::Leaf(ch, nch) => {
                let j = to_json(&f.zkpok);
                let leaves = int_leaf_paths(&j);
                for (li, path) in leaves.iter().enumerate() {
                    if li % nch != *ch { continue; }
                    let cur = leaf_int(json_get(&j, path).unwrap()).unwrap();
                    let mut edits: Vec<(String, Value)> = leaf_perturbations_mod(&cur, &[("N", &w.pk.N), ("N'", &w.cpk_own.N)]).into_iter().map(|(nm, v)| { let mut x = j.clone(); json_set(&mut x, path, int_leaf(&v)); (nm, x) }).collect();
                    // sibling swap: with the next integer leaf under the same parent
                    if let Some(sib) = leaves.iter().skip(li + 1).find(|p| p.len() == path.len() && p[..p.len() - 1] == path[..path.len() - 1]) {
                        let other_v = json_get(&j, sib).unwrap().clone();
                        if other_v != *json_get(&j, path).unwrap() { let mut x = j.clone(); json_set(&mut x, path, other_v); json_set(&mut x, sib, int_leaf(&cur)); edits.push((format!("swap with {}", sib.last().unwrap()), x)); }
                    }
                    for (nm, x) in edits {
                        let name = format!("/{} {}", path.join("/"), nm);
                        if !env.ctx.state(&[r.id.as_bytes(), name.as_bytes()]) { continue; }
                        let zk2: Option<ZKPoK<CL03<CS>>> = from_json(&x);
                        let got = match &zk2 { Some(z) => issuer_verifies::<CS>(z, f.c.cl03Commitment(), ct, &w.pk, &bases, cpk, &r.u), None => O::Ok(false) };
                        expect_bool(env, &r.id, &format!("verify_proof after leaf edit {}", name), &got, false, true, &format!("leaf-edit{}:/{}", if nm.contains('N') { ":other-representative" } else { "" }, path_class(path)), json!({"base": det0, "leaf": path.join("/"), "edit": nm}));
                        env.ctx.class(&format!("leaf:{}", match got { O::Ok(false) => "rejected", O::Ok(true) => "accepted", _ => "refused-by-panic" })); env.ctx.trace();
                    }
                }
                env.ctx.extra(&format!("leaves:{}", r.id.rsplitn(2, "/chunk").last().unwrap_or("")), json!(leaves.len()));
            }
        }
    });
}
