//! C17 — CL03 proofs do not hand the verifier the openings they are meant to hide (form C: attacker-side recomputation
//! over every {value, randomness} object and every leaf pair of every explored serialized proof).
#![allow(non_snake_case)]
use crate::c14::holder;
use crate::c15::{honest, honest_with_key};
use crate::common::*;
use mccore::{int_leaf_paths, json_get, par_for, path_class, subsets, O};
use rug::{Complete, Integer};
use serde_json::{json, Value};
use zkryptium::cl03::keys::{CL03PublicKey, CL03SecretKey};
use zkryptium::schemes::algorithms::{Scheme, CL03};

/// One serialized proof as the recipient sees it, with what the harness (not the recipient) knows about the prover's secrets.
pub struct Item {
    pub id: String,
    pub kind: &'static str, // "issuance" | "signature-proof"
    pub n: usize,
    pub hidden: Vec<usize>,
    pub proof: Value,
    pub m: Vec<Integer>,
    /// named secrets the prover holds (hidden attributes, e, s, v, holder commitment randomness)
    pub secrets: Vec<(String, Integer)>,
    /// public values the recipient also has besides the proof (commitment C of an issuance request)
    pub public_extra: Vec<(String, Integer)>,
}

pub fn collect<CS: Suite>(env: &Env, w: &World<CS>, maxn: usize, label: &str) -> Vec<Item>
where CL03<CS>: Scheme<PubKey = CL03PublicKey, PrivKey = CL03SecretKey>, CS::HashAlg: sha2::Digest {
    let seed = env.ctx.seed;
    let mut specs: Vec<(&'static str, usize, Vec<usize>, bool, &'static str)> = Vec::new();
    for n in 1..=maxn { for u in subsets(n) {
        if !u.is_empty() { specs.push(("issuance", n, u.clone(), false, "")); if n == 2 && u == vec![1] { specs.push(("issuance", n, u.clone(), true, "")); } }
        specs.push(("signature-proof", n, u.clone(), false, ""));
        // small hidden attributes (0 and 1): blinding must not scale with the secret
        if n == 2 && !u.is_empty() { for var in ["zero", "one"] { specs.push(("issuance", n, u.clone(), false, var)); specs.push(("signature-proof", n, u.clone(), false, var)); } }
    } }
    // hidden-position lists that are NOT in ascending order (the API takes any list): whatever the prover does with them,
    // the proof it hands out must not leak more than for the sorted list
    for n in 2..=maxn { for u in subsets(n) { if u.len() >= 2 { let mut r = u.clone(); r.reverse(); specs.push(("signature-proof", n, r.clone(), false, "")); specs.push(("issuance", n, r, false, "")); } } }
    // many attributes: position 7 of 8 and position 65 of 66 (a fixed-width index set, a window of blindings, ... shows only there)
    if w.bases.0.len() >= 66 { specs.push(("signature-proof", 8, vec![3], false, "")); specs.push(("signature-proof", 8, vec![0, 7], false, "")); specs.push(("issuance", 8, vec![0, 7], false, "")); specs.push(("signature-proof", 66, vec![1, 65], false, "")); specs.push(("issuance", 66, vec![1, 65], false, "")); }
    // a verifier commitment key with more generators than the credential has attributes
    for (n, u, var) in [(1usize, vec![0usize], "longkey2"), (2, vec![1], "longkey1"), (2, vec![], "longkey1")] { specs.push(("signature-proof", n, u, false, var)); }
    // a hidden attribute whose VALUE equals a revealed one (hidden / revealed must be decided by position, never by value); C19 only
    if label == "c19" { specs.push(("signature-proof", 2, vec![1], false, "equal")); specs.push(("signature-proof", 2, vec![0], false, "equal")); if maxn >= 3 { specs.push(("signature-proof", 3, vec![2], false, "equal")); specs.push(("signature-proof", 3, vec![0, 1], false, "equal")); } }
    if maxn >= 3 { specs.push(("signature-proof", 3, vec![2, 0], false, "")); specs.push(("signature-proof", 3, vec![1, 2, 0], false, "")); specs.push(("issuance", 3, vec![2, 0], false, "")); }
    let out = std::sync::Mutex::new(Vec::new());
    par_for(&specs, |_, (kind, n, u, trusted, var)| {
        let mut m = distinct_attrs(seed, label, *n);
        match *var { "zero" => m[u[0]] = Integer::from(0), "one" => m[*u.last().unwrap()] = Integer::from(1), "equal" => { let r = (0..*n).find(|i| !u.contains(i)).unwrap(); m[*u.last().unwrap()] = m[r].clone(); } _ => {} }
        let id = format!("{}/{}/n{}/hidden{:?}{}{}", CS::NAME, kind, n, u, if *trusted { "/trusted" } else { "" }, if var.is_empty() { String::new() } else { format!("/{}", var) });
        if *kind == "issuance" {
            match holder::<CS>(w, *n, &m, u, *trusted) {
                O::Ok(f) => { let mut secrets: Vec<(String, Integer)> = u.iter().map(|&i| (format!("hidden m_{}", i), m[i].clone())).collect(); secrets.push(("commitment randomness r".into(), f.c.randomness().clone()));
                    let mut pe = vec![("C".to_string(), f.c.value().clone())]; if let Some(ct) = &f.c_trusted { pe.push(("C_trusted".into(), ct.value().clone())); secrets.push(("trusted commitment randomness".into(), ct.randomness().clone())); }
                    out.lock().unwrap().push(Item { id, kind, n: *n, hidden: u.clone(), proof: to_json(&f.zkpok), m: m.clone(), secrets, public_extra: pe }); }
                o => { if u.windows(2).all(|w| w[0] < w[1]) { env.machinery(&format!("holder side failed for {}: {}", id, o.describe())); } else { env.ctx.note(&format!("{}: prover refuses the unordered hidden list ({})", id, o.kind())); } }
            }
        } else {
            match if var.starts_with("longkey") { honest_with_key::<CS>(w, *n, &m, u, if *var == "longkey1" { 1 } else { 2 }) } else { honest::<CS>(w, *n, &m, u) } {
                O::Ok((sig, p)) => { let sj = to_json(&sig); let mut secrets: Vec<(String, Integer)> = u.iter().map(|&i| (format!("hidden m_{}", i), m[i].clone())).collect();
                    for k in ["e", "s", "v"] { secrets.push((format!("signature {}", k), leaf_int(&sj["CL03"][k]).unwrap())); }
                    out.lock().unwrap().push(Item { id, kind, n: *n, hidden: u.clone(), proof: to_json(&p), m: m.clone(), secrets, public_extra: vec![] }); }
                o => { if u.windows(2).all(|w| w[0] < w[1]) { env.machinery(&format!("proof_gen failed for {}: {}", id, o.describe())); } else { env.ctx.note(&format!("{}: prover refuses the unordered hidden list ({})", id, o.kind())); } }
            }
        }
    });
    let mut v = out.into_inner().unwrap();
    v.sort_by(|a, b| a.id.cmp(&b.id));
    v
}

pub fn run<CS: Suite>(env: &Env)
where CL03<CS>: Scheme<PubKey = CL03PublicKey, PrivKey = CL03SecretKey>, CS::HashAlg: sha2::Digest {
    let maxn = if env.thorough() { 3 } else { 2 };
    let w: World<CS> = World::generate(66);
    let items = collect::<CS>(env, &w, maxn, "c17");
    env.ctx.set_rule("every honest issuance proof (all non-empty hidden subsets, + one with trusted party) and signature proof (all subsets), n <= 2 (thorough 3). In the JSON view: (i) every object shaped {value, randomness} and (ii) every ordered pair of integer leaves (quick: sibling pairs under one parent; thorough: for the plain items with n <= 2 additionally every (group-element-sized leaf, any leaf) pair across sub-proofs) is tested as an opening (V, R): for every public base pair (g, h, N) in {(a_i, b, N)} u {(g_i, h_c, N)} u {(g_i', h', N') of the trusted key} and every secret x the prover holds (hidden m_i, e, s, v, r): V != g^x * h^R; V * g^(-R) != v; the full-vector opening V = prod g_i^{m_i} * h^R with revealed attributes known; no leaf equals x, c*x or (1+c)*x for a hidden attribute x and a challenge c the recipient has or can recompute; and the dictionary attack with candidates {true value, true value + 1}: the test must not single out the true candidate; sibling responses must not differ by challenge * (m_i - m_j); inside every embedded range proof no product / quotient of two of the commitments E, E', E_a_1, E_a_2, E_b_1, E_b_2 equals g^y for y in {x_a1^2, x_a2, x_b1^2, x_b2, x_a1, x_b1, 2^T x - aa, bb - 2^T x} or a sum / difference of two of them (true secret x versus x + 1). Hidden-position lists are also given in non-ascending order. State = (proof, leaf pair); non-trivial = at least one modular recomputation against a real serialized proof.");
    par_for(&items, |_, it| {
        if !env.want(&it.id) || env.ctx.out_of_time() { return; }
        let n = it.n;
        let leaves = int_leaf_paths(&it.proof);
        let val = |p: &Vec<String>| leaf_int(json_get(&it.proof, p).unwrap()).unwrap();
        // candidate (V, R) pairs; all ordered pairs only for the plain items (ascending hidden list, hash-sized attributes)
        let plain_item = it.hidden.windows(2).all(|w| w[0] < w[1]) && !it.id.ends_with("/zero") && !it.id.ends_with("/one");
        let mut pairs: Vec<(Vec<String>, Vec<String>)> = Vec::new();
        for a in &leaves { for b in &leaves {
            if a == b { continue; }
            let siblings = a.len() == b.len() && a[..a.len() - 1] == b[..b.len() - 1];
            // thorough: every leaf as randomness against every leaf that can be a commitment value (a group element: within 64
            // bits of the modulus length), across sub-proofs
            let cross = env.thorough() && it.n <= 2 && plain_item && { let v = val(a); v > 0 && v.significant_bits() + 64 >= w.pk.N.significant_bits() && v.significant_bits() <= w.cpk_own.N.significant_bits().max(w.pk.N.significant_bits()) };
            if cross || siblings { pairs.push((a.clone(), b.clone())); }
        } }
        // public base pairs
        let mut bases: Vec<(String, Integer, Integer, Integer)> = Vec::new();
        // for credentials with many attributes only the bases of the hidden positions and of position 0 are tried
        for i in (0..n).filter(|i| n <= 4 || *i == 0 || it.hidden.contains(i)) { bases.push((format!("(a_{}, b, N)", i), w.bases.0[i].clone(), w.pk.b.clone(), w.pk.N.clone())); bases.push((format!("(g_{}, h, N)", i), w.cpk.g_bases[i].clone(), w.cpk.h.clone(), w.cpk.N.clone())); bases.push((format!("(g'_{}, h', N')", i), w.cpk_own.g_bases[i].clone(), w.cpk_own.h.clone(), w.cpk_own.N.clone())); }
        let families: Vec<(&str, Vec<Integer>, Integer, Integer)> = vec![("(a_*, b, N)", w.bases.0[..n].to_vec(), w.pk.b.clone(), w.pk.N.clone()), ("(g_*, h, N)", w.cpk.g_bases[..n].to_vec(), w.cpk.h.clone(), w.cpk.N.clone()), ("(g'_*, h', N')", w.cpk_own.g_bases[..n].to_vec(), w.cpk_own.h.clone(), w.cpk_own.N.clone())];
        let v_sig = it.secrets.iter().find(|s| s.0 == "signature v").map(|s| s.1.clone());
        let det0 = json!({"suite": CS::NAME, "proof": it.id, "n": n, "hidden": it.hidden});
        for (pv, pr) in &pairs {
            let (V, R) = (val(pv), val(pr));
            let shaped = pv.last().map(|x| x == "value").unwrap_or(false) && pr.last().map(|x| x == "randomness").unwrap_or(false);
            env.ctx.state(&[it.id.as_bytes(), pv.join("/").as_bytes(), pr.join("/").as_bytes()]);
            env.ctx.step();
            let pc = format!("/{} with /{}", path_class(pv), path_class(pr));
            let mut hit = |cls: &str, what: String| { env.ctx.violation(&format!("C17:{}:{}", cls, pc), &what, env.case(&it.id, json!({"base": det0, "value_leaf": pv.join("/"), "randomness_leaf": pr.join("/")}))); };
            for (bn, g, h, nn) in &bases {
                let hr = modpow(h, &R, nn);
                for (sn, x) in &it.secrets {
                    if (modpow(g, x, nn) * &hr) % nn == V.clone() % nn && V < *nn { hit("opening-of-secret", format!("value = g^x * h^randomness for x = {} with bases {}", sn, bn)); }
                }
                // dictionary attack on a single hidden attribute: true candidate vs true + 1
                for &i in &it.hidden {
                    let t = (modpow(g, &it.m[i], nn) * &hr) % nn == V; let f = (modpow(g, &(it.m[i].clone() + 1u32), nn) * &hr) % nn == V;
                    if t && !f { hit("dictionary-attack", format!("the test value = g^cand * h^R singles out the true hidden m_{} with bases {}", i, bn)); }
                }
                // recover v from a commitment v * g^w with w published
                if let Some(vs) = &v_sig { if (V.clone() * modpow(g, &(-R.clone()), nn)) % nn == *vs { hit("recovers-v", format!("value * g^(-randomness) = v with base {}", bn)); } }
            }
            // full-vector opening with the revealed attributes known to the recipient: candidates for the hidden ones true / true+1
            for (fname, gs, h, nn) in families.iter().filter(|_| n <= 4 || shaped) {
                let hr = modpow(h, &R, nn);
                let mut acc_true = hr.clone(); let mut acc_alt = hr.clone();
                for i in 0..n { acc_true = (acc_true * modpow(&gs[i], &it.m[i], nn)) % nn; let alt = if it.hidden.contains(&i) { it.m[i].clone() + 1u32 } else { it.m[i].clone() }; acc_alt = (acc_alt * modpow(&gs[i], &alt, nn)) % nn; }
                if !it.hidden.is_empty() && acc_true == V && acc_alt != V { hit("dictionary-attack-full-vector", format!("value = prod g_i^m_i * h^R confirms the hidden attributes with bases {}", fname)); }
            }
            env.ctx.class(if shaped { "value/randomness object" } else { "leaf pair" });
            env.ctx.trace();
        }
        // two commitment values of one sub-proof multiplied / divided: must not give the signature component v (nor its inverse)
        if let Some(vs) = &v_sig {
            let nn = &w.cpk.N;
            let vinv = vs.clone().invert(nn).unwrap_or_default();
            let elems: Vec<&Vec<String>> = leaves.iter().filter(|p| { let x = val(p); x > 0 && x < *nn && x.significant_bits() + 64 >= nn.significant_bits() }).collect();
            for a in &elems { for b in &elems {
                if a >= b || a.len() != b.len() || a[..a.len() - 1] != b[..b.len() - 1] { continue; }
                env.ctx.step();
                let (x, y) = (val(a), val(b));
                let yi = match y.clone().invert(nn) { Ok(i) => i, Err(_) => continue };
                let xi = match x.clone().invert(nn) { Ok(i) => i, Err(_) => continue };
                for (how, q) in [("a / b", (x.clone() * &yi) % nn), ("b / a", (y.clone() * &xi) % nn), ("a * b", (x.clone() * &y) % nn)] {
                    if q == *vs || q == vinv { env.ctx.violation(&format!("C17:recovers-v:two-values:/{}", path_class(a)), &format!("{} of a = /{} and b = /{} is the signature component v{}: v follows from the proof alone", how, a.join("/"), b.join("/"), if q == vinv { " (inverted)" } else { "" }), env.case(&it.id, json!({"base": det0, "leaves": [a.join("/"), b.join("/")], "how": how}))); }
                }
            } }
        }
        // two hidden attributes blinded by the same value: (s_i - s_j) = c * (m_i - m_j) exactly, for a challenge c carried in the proof
        // challenges: carried in the proof or recomputable by the recipient from public data
        let chal: Vec<Integer> = crate::c19::challenges::<CS>(&w, it).into_iter().map(|c| c.1).filter(|c| *c > 0).collect();
        // a leaf that is an exact multiple x, c*x or (1+c)*x of a hidden attribute confirms a guess of x with one multiplication
        for a in &leaves {
            let s = val(a); if s <= 0 { continue; }
            for &hi in &it.hidden { let x = &it.m[hi]; if *x < pow2(64) { continue; } // 0 and 1 make the relation trivial
                env.ctx.step();
                let mut how = None;
                if s == *x { how = Some("x".to_string()); }
                for c in &chal { if s == c.clone() * x { how = Some("challenge * x".into()); } else if s == (c.clone() + 1u32) * x { how = Some("(1 + challenge) * x".into()); } }
                if let Some(hw) = how { env.ctx.violation(&format!("C17:leaf-confirms-guess:/{}", path_class(a)), &format!("/{} = {} for the hidden attribute x = m_{}: a guessed value is confirmed from the proof alone", a.join("/"), hw, hi), env.case(&it.id, json!({"base": det0, "leaf": a.join("/"), "how": hw}))); }
            }
        }
        for a in &leaves { for b in &leaves {
            if a >= b || a.len() != b.len() || a[..a.len() - 1] != b[..b.len() - 1] || !a.last().unwrap().chars().all(|c| c.is_ascii_digit()) { continue; }
            let diff = val(a) - val(b);
            for (i, &hi) in it.hidden.iter().enumerate() { for &hj in it.hidden.iter().skip(i + 1) {
                let dm = it.m[hi].clone() - &it.m[hj];
                for c in &chal { env.ctx.step(); if *c != 0 && (diff.clone() == c.clone() * &dm || diff.clone() == -(c.clone() * &dm)) {
                    env.ctx.violation(&format!("C17:difference-of-hidden-attributes:/{}", path_class(a)), &format!("/{} - /{} = challenge * (m_{} - m_{}): the two responses share their blinding, the difference of two hidden attributes can be confirmed from the proof", a.join("/"), b.join("/"), hi, hj), env.case(&it.id, json!({"base": det0, "leaves": [a.join("/"), b.join("/")]})));
                } }
            } }
        } }
        // commitments inside an embedded range proof multiplied / divided with each other: if the h-parts cancel, the product is
        // g^y for a y that follows from the committed secret by public arithmetic (Boudot's decomposition of 2^T x - aa and
        // bb - 2^T x into a square plus a rest): a guessed secret is then confirmed by one exponentiation
        {
            let root = &it.proof["CL03"];
            let secret = |name: &str| it.secrets.iter().find(|s| s.0 == name).map(|s| s.1.clone());
            let mut rps: Vec<(String, Vec<String>, Integer, Integer, Option<Integer>)> = Vec::new();
            if root["range_proof_e"].is_object() { rps.push(("range_proof_e".into(), vec!["CL03".into(), "range_proof_e".into()], pow2(CS::le - 1) + 1u32, pow2(CS::le) - 1u32, secret("signature e"))); }
            if root["range_proof_r"].is_object() { rps.push(("range_proof_r".into(), vec!["CL03".into(), "range_proof_r".into()], Integer::from(0), pow2(CS::ln) - 1u32, secret("commitment randomness r"))); }
            for key in ["range_proofs_commited_mi", "range_proofs_mi"] { if let Some(arr) = root[key].as_array() { for k in 0..arr.len() { let i = it.hidden.get(k).copied().unwrap_or(0); rps.push((format!("{}[{}]", key, k), vec!["CL03".into(), key.into(), k.to_string()], Integer::from(0), pow2(CS::lm) - 1u32, Some(it.m[i].clone()))); } } }
            let derived = |x: &Integer, a: &Integer, b: &Integer| -> Option<Vec<(String, Integer)>> {
                let big_t = 2 * (128 + 40 + 1) + (b - a).complete().significant_bits();
                let aa = pow2(big_t) * a;
                let bb = pow2(big_t) * b;
                let xa = pow2(big_t) * x - &aa; let xb = bb - pow2(big_t) * x;
                if xa < 0 || xb < 0 { return None; }
                let (xa1, xb1) = (Integer::from(xa.sqrt_ref()), Integer::from(xb.sqrt_ref()));
                let (xa2, xb2) = (xa.clone() - xa1.clone() * &xa1, xb.clone() - xb1.clone() * &xb1);
                Some(vec![("x_a1^2".into(), xa1.clone() * &xa1), ("x_a2".into(), xa2), ("x_b1^2".into(), xb1.clone() * &xb1), ("x_b2".into(), xb2), ("x_a1".into(), xa1), ("x_b1".into(), xb1), ("2^T x - aa".into(), xa), ("bb - 2^T x".into(), xb)])
            };
            for (name, path, lo, hi, sec) in &rps {
                let x = match sec { Some(x) => x, None => continue };
                let (dt, da) = match (derived(x, lo, hi), derived(&(x.clone() + 1u32), lo, hi)) { (Some(a), Some(b)) => (a, b), _ => continue };
                // exponent candidates: singles and pairwise sums / differences
                let mut ys: Vec<(String, Integer, Integer)> = dt.iter().zip(da.iter()).map(|(t, a)| (t.0.clone(), t.1.clone(), a.1.clone())).collect();
                for i in 0..dt.len() { for j in (i + 1)..dt.len() { ys.push((format!("{} + {}", dt[i].0, dt[j].0), dt[i].1.clone() + &dt[j].1, da[i].1.clone() + &da[j].1)); ys.push((format!("{} - {}", dt[i].0, dt[j].0), dt[i].1.clone() - &dt[j].1, da[i].1.clone() - &da[j].1)); } }
                let sub: Vec<(Vec<String>, Integer)> = leaves.iter().filter(|p| p.len() > path.len() && p[..path.len()] == path[..] && matches!(p.last().unwrap().as_str(), "E_a_1" | "E_a_2" | "E_b_1" | "E_b_2" | "E" | "E_prime")).map(|p| (p.clone(), val(p))).collect();
                env.ctx.state(&[it.id.as_bytes(), name.as_bytes(), b"products"]);
                for (bn, g, _h, nn) in &bases {
                    // g^y for every candidate exponent (true secret / secret + 1)
                    let gy: Vec<(Integer, Integer)> = ys.iter().map(|(_, t, a)| (modpow(g, t, nn), modpow(g, a, nn))).collect();
                    for i in 0..sub.len() { for j in i..sub.len() { for op in ["*", "/"] {
                        if i == j && op == "/" { continue; }
                        let v2 = if i == j { Integer::from(1) } else if op == "*" { sub[j].1.clone() } else { match sub[j].1.clone().invert(nn) { Ok(x) => x, Err(_) => continue } };
                        let p_ = (sub[i].1.clone() * v2) % nn;
                        if p_ == 1 && i != j { continue; } // two copies of the same commitment (the proof of square repeats E_x_1): carries nothing
                        env.ctx.step();
                        for (k, (gt, ga)) in gy.iter().enumerate() {
                            if p_ == *gt && p_ != *ga {
                                env.ctx.violation(&format!("C17:range-proof-product-confirms-guess:{}", name.split('[').next().unwrap_or(name)), &format!("{}: {}{} = g^({}) with base {}: the blinding cancels and a guessed value of the committed secret is confirmed by one exponentiation", name, sub[i].0.last().unwrap(), if i == j { String::new() } else { format!(" {} {}", op, sub[j].0.last().unwrap()) }, ys[k].0, bn), env.case(&it.id, json!({"base": det0, "range_proof": name, "fields": [sub[i].0.join("/"), sub[j].0.join("/")], "op": op, "exponent": ys[k].0})));
                            }
                        }
                    } } }
                }
                env.ctx.class("range proof products"); env.ctx.trace();
            }
        }
        // the mere presence of a field named `randomness` next to a commitment value is recorded (not a verdict by itself)
        env.ctx.add_extra("randomness_leaves_seen", leaves.iter().filter(|p| p.last().map(|x| x == "randomness").unwrap_or(false)).count() as u64);
        if it.n == 2 && it.hidden == vec![1] { env.ctx.sample(json!({"proof": it.id, "leaves": leaves.len(), "pairs_tested": pairs.len(), "base_pairs": bases.len()})); }
    });
}
