//! C18 — CL03 keys and parameters are well formed and survive their encodings. Configurations are enumerated
//! exhaustively (suite x n_attributes 0..=5 x modulus source); key draws are samples of the real generator and are
//! labelled so. Structure facts are checked by the independent Python/sympy checker (no GMP).
#![allow(non_snake_case)]
use crate::common::*;
use crate::indep;
use mccore::{par_for, O};
use rug::Integer;
use serde_json::{json, Value};
use zkryptium::cl03::bases::Bases;
use zkryptium::cl03::keys::{verif_hooks, CL03CommitmentPublicKey, CL03PublicKey, CL03SecretKey};
use zkryptium::keys::pair::KeyPair;
use zkryptium::schemes::algorithms::{Scheme, CL03};
use zkryptium::schemes::generics::Signature;
use zkryptium::utils::random::{rand_int, random_bits, random_number, random_qr};

pub fn run<CS: Suite>(env: &Env)
where CL03<CS>: Scheme<PubKey = CL03PublicKey, PrivKey = CL03SecretKey, Ciphersuite = CS>, CS::HashAlg: sha2::Digest {
    let nkeys = match (CS::NAME, env.thorough()) { ("CL1024", false) => 3, ("CL1024", true) => 20, ("CL2048", _) => 3, _ => 1 };
    env.ctx.set_rule("configurations (exhaustive): suite x n_attributes in 0..=5 x commitment-key modulus source {issuer modulus, own modulus}; per suite K freshly generated key pairs (SAMPLED draws: CL1024 x 3 quick / x 20 thorough, CL2048 x 3, CL3072 x 1). Checked with Python integers + sympy: N = p*q, p != q, p, q, (p-1)/2, (q-1)/2 prime, |p| = |q| = SECPARAM+1; for x in {b, c, a_i, h, g_i}: 1 < x < N, gcd(x,N) = 1, Jacobi(x,p) = Jacobi(x,q) = 1; h generates QR_N (h^p' != 1 != h^q'), hence g_i in <h>; own-modulus factors via the verif_hooks feature. Codecs: to_bytes/from_bytes and serde round trips for pk, sk, key pair, bases, commitment keys, signatures. random_bits(n) for EVERY n in 1..=64 and {256,258,1024,1536} x 50 draws: bit n-1 set, nothing above; rand_int(a,b) for all a in -3..=3, b-a in 0..=3 x 200 draws: in range and every value hit; random_number, random_qr. State = one checked fact; non-trivial = a generated object was tested by an independent computation.");
    env.ctx.not_exhaustive("key draws are samples of a 2^512+ space; the configuration grid is exhaustive");
    let items: std::sync::Mutex<Vec<Value>> = std::sync::Mutex::new(Vec::new());
    let jobs: Vec<usize> = (0..nkeys).collect();
    par_for(&jobs, |_, &k| {
        let id = format!("{}/key{}", CS::NAME, k);
        if !env.want(&id) || env.ctx.out_of_time() { return; }
        let kp = match mccore::guard_val(|| KeyPair::<CL03<CS>>::generate()) { O::Ok(x) => x, o => { env.ctx.violation("C18:keygen-failed", &o.describe(), env.case(&id, json!({}))); return; } };
        env.ctx.step();
        // serde round trip of the key pair
        let kj = to_json(&kp);
        if from_json::<KeyPair<CL03<CS>>>(&kj).as_ref() != Some(&kp) { env.ctx.violation("C18:roundtrip:keypair-json", "serde round trip changes the key pair", env.case(&id, json!({}))); }
        let (sk, pk) = kp.into_parts();
        let hx = |x: &Integer| x.to_string_radix(16);
        let mut push = |v: Value| items.lock().unwrap().push(v);
        push(json!({"kind": "key", "root": id, "p": hx(&sk.p), "q": hx(&sk.q), "N": hx(&pk.N), "secparam": CS::SECPARAM}));
        for (nm, x) in [("b", &pk.b), ("c", &pk.c)] { push(json!({"kind": "qr", "root": format!("{}/{}", id, nm), "x": hx(x), "N": hx(&pk.N), "p": hx(&sk.p), "q": hx(&sk.q)})); }
        // codecs for keys
        let pkb = mccore::guard_val(|| CL03PublicKey::from_bytes::<CL03<CS>>(&pk.to_bytes::<CL03<CS>>())); env.ctx.step();
        if pkb.clone().ok().as_ref() != Some(&pk) { env.ctx.violation("C18:roundtrip:pk-bytes", &format!("from_bytes(to_bytes(pk)) != pk ({})", pkb.kind()), env.case(&id, json!({}))); }
        let skb = mccore::guard_val(|| CL03SecretKey::from_bytes::<CL03<CS>>(&sk.to_bytes::<CL03<CS>>())); env.ctx.step();
        if skb.clone().ok().as_ref() != Some(&sk) { env.ctx.violation("C18:roundtrip:sk-bytes", &format!("from_bytes(to_bytes(sk)) != sk ({})", skb.kind()), env.case(&id, json!({}))); }
        if from_json::<CL03PublicKey>(&to_json(&pk)).as_ref() != Some(&pk) || from_json::<CL03SecretKey>(&to_json(&sk)).as_ref() != Some(&sk) { env.ctx.violation("C18:roundtrip:key-json", "serde round trip changes a key", env.case(&id, json!({}))); }
        env.ctx.state(&[id.as_bytes(), b"key"]); env.ctx.class("key pair"); env.ctx.trace();
        if k == 0 { crate::c13::codec_magnitudes::<CS>(env, &pk.N); }
        // random_qr on small products of two safe primes, where the rejected outcomes (1, elements sharing a factor with N) are
        // frequent enough to be met: every draw must be a square other than 1 and coprime to N (checked against the full list of
        // such squares)
        if k == 0 && CS::NAME == "CL1024" {
            for (p_, q_) in [(5u32, 7u32), (7, 11), (11, 23), (23, 47), (47, 59)] {
                let nn = Integer::from(p_ * q_);
                let cid = format!("{}/random_qr/N={}", CS::NAME, p_ * q_);
                let good: std::collections::BTreeSet<u32> = (1..p_ * q_).filter(|x| x % p_ != 0 && x % q_ != 0).map(|x| (x as u64 * x as u64 % (p_ * q_) as u64) as u32).filter(|&y| y != 1).collect();
                let mut seen = std::collections::BTreeSet::new();
                for _ in 0..4000 { let x = mccore::guard_val(|| random_qr(&nn)); env.ctx.step();
                    match x { O::Ok(v) => { let u = v.to_u32().unwrap_or(0); seen.insert(u); if !good.contains(&u) { env.ctx.violation("C18:random_qr:not-a-proper-residue", &format!("random_qr({}) returned {}, which is 1, not a square, or not coprime to N", nn, v), env.case(&cid, json!({"N": p_ * q_, "value": u}))); break; } }
                              o => { env.ctx.violation("C18:random_qr:failed", &o.describe(), env.case(&cid, json!({"N": p_ * q_}))); break; } } }
                if p_ * q_ <= 253 && seen.len() != good.len() { env.ctx.violation("C18:random_qr:range", &format!("random_qr({}) produced {} distinct values in 4000 draws, there are {} proper residues", nn, seen.len(), good.len()), env.case(&cid, json!({"N": p_ * q_}))); }
                env.ctx.state(&[cid.as_bytes()]); env.ctx.class("random_qr small modulus"); env.ctx.trace();
            }
        }
        for n in 0..=5usize {
            let cid = format!("{}/n_attributes={}", id, n);
            env.ctx.state(&[cid.as_bytes()]);
            let bases = Bases::generate(&pk, n); env.ctx.step();
            if bases.0.len() != n { env.ctx.violation("C18:bases:count", &format!("Bases::generate({}) returned {} bases", n, bases.0.len()), env.case(&cid, json!({}))); }
            for (i, a) in bases.0.iter().enumerate() { push(json!({"kind": "qr", "root": format!("{}/a_{}", cid, i), "x": hx(a), "N": hx(&pk.N), "p": hx(&sk.p), "q": hx(&sk.q)})); }
            if from_json::<Bases>(&to_json(&bases)).map(|b| b.0) != Some(bases.0.clone()) { env.ctx.violation("C18:roundtrip:bases-json", "serde round trip changes the bases", env.case(&cid, json!({}))); }
            for own in [false, true] {
                if own && k > 0 && n != 1 { continue; } // own-modulus keys need two more safe primes each: all n for the first key, n = 1 for the others
                let _ = verif_hooks::take_own_modulus_factors();
                let cpk = CL03CommitmentPublicKey::generate::<CS>(if own { None } else { Some(pk.N.clone()) }, Some(n)); env.ctx.step();
                let tag = format!("{}/commitment-key({})", cid, if own { "own modulus" } else { "issuer modulus" });
                env.ctx.state(&[tag.as_bytes()]);
                if cpk.g_bases.len() != n { env.ctx.violation("C18:commitment-key:count", &format!("generate(.., Some({})) returned {} bases", n, cpk.g_bases.len()), env.case(&tag, json!({}))); }
                let (p, q) = if own { match verif_hooks::take_own_modulus_factors() { Some(f) => f, None => { env.ctx.note("hook H2 returned no factors: own-modulus structure not checked"); continue; } } } else { if cpk.N != pk.N { env.ctx.violation("C18:commitment-key:modulus", "commitment key does not use the supplied modulus", env.case(&tag, json!({}))); } (sk.p.clone(), sk.q.clone()) };
                if own { push(json!({"kind": "mod", "root": tag, "p": hx(&p), "q": hx(&q), "N": hx(&cpk.N), "secparam": CS::SECPARAM})); }
                push(json!({"kind": "qr", "root": format!("{}/h", tag), "x": hx(&cpk.h), "N": hx(&cpk.N), "p": hx(&p), "q": hx(&q)}));
                push(json!({"kind": "gen", "root": format!("{}/h", tag), "h": hx(&cpk.h), "N": hx(&cpk.N), "p": hx(&p), "q": hx(&q)}));
                for (i, g) in cpk.g_bases.iter().enumerate() { push(json!({"kind": "qr", "root": format!("{}/g_{}", tag, i), "x": hx(g), "N": hx(&cpk.N), "p": hx(&p), "q": hx(&q)})); }
                if from_json::<CL03CommitmentPublicKey>(&to_json(&cpk)).as_ref() != Some(&cpk) { env.ctx.violation("C18:roundtrip:commitment-key-json", "serde round trip changes the commitment key", env.case(&tag, json!({}))); }
                env.ctx.class(if own { "commitment key (own modulus)" } else { "commitment key (issuer modulus)" }); env.ctx.trace();
            }
            // a signature over n attributes survives its encodings
            if n >= 1 {
                let m = distinct_attrs(env.ctx.seed, "c18", n);
                let sig = Signature::<CL03<CS>>::sign_multiattr(&pk, &sk, &bases, &msgs(&m)); env.ctx.step();
                let rt = mccore::guard_val(|| Signature::<CL03<CS>>::from_bytes(&sig.to_bytes()));
                if rt.ok().as_ref() != Some(&sig) || from_json::<Signature<CL03<CS>>>(&to_json(&sig)).as_ref() != Some(&sig) { env.ctx.violation("C18:roundtrip:signature", "signature does not survive bytes / JSON", env.case(&cid, json!({}))); }
            }
            env.ctx.class("configuration"); env.ctx.trace();
        }
        // random_qr / random_number on this modulus
        for t in 0..8 { let x = random_qr(&pk.N); push(json!({"kind": "qr", "root": format!("{}/random_qr#{}", id, t), "x": hx(&x), "N": hx(&pk.N), "p": hx(&sk.p), "q": hx(&sk.q)})); let y = random_number(pk.N.clone()); env.ctx.steps(2); if y < 0 || y >= pk.N { env.ctx.violation("C18:random_number:range", "random_number(n) not in [0, n)", env.case(&id, json!({}))); } }
    });
    // random value helpers (suite independent; run once, with the first suite)
    if CS::NAME == "CL1024" && env.want("random-helpers") {
        let ns: Vec<u32> = (1..=64).chain([256, 258, 1024, 1536]).collect();
        par_for(&ns, |_, &n| {
            env.ctx.state(&[b"random_bits", &n.to_be_bytes()]);
            let mut seen = std::collections::HashSet::new();
            for _ in 0..50 { let x = match mccore::guard_val(|| random_bits(n)) { O::Ok(x) => x, o => { env.ctx.violation("C18:random_bits:panic", &format!("random_bits({}) panicked: {}", n, o.describe()), env.case("random-helpers", json!({"n": n}))); break; } }; env.ctx.step(); seen.insert(x.to_string());
                if x.significant_bits() != n { env.ctx.violation("C18:random_bits:length", &format!("random_bits({}) returned a {}-bit value", n, x.significant_bits()), env.case("random-helpers", json!({"n": n}))); } }
            if n >= 16 && seen.len() < 45 { env.ctx.violation("C18:random_bits:repeats", &format!("random_bits({}) produced only {} distinct values in 50 draws", n, seen.len()), env.case("random-helpers", json!({"n": n}))); }
            env.ctx.class("random_bits"); env.ctx.trace();
        });
        for a in -3i32..=3 { for w in 0..=3i32 {
            env.ctx.state(&[b"rand_int", &a.to_be_bytes(), &w.to_be_bytes()]);
            let mut hit = std::collections::BTreeSet::new();
            for _ in 0..200 { let x = match mccore::guard_val(|| rand_int(Integer::from(a), Integer::from(a + w))) { O::Ok(x) => x, o => { env.ctx.violation("C18:rand_int:panic", &format!("rand_int({}, {}) panicked: {}", a, a + w, o.describe()), env.case("random-helpers", json!({"a": a, "b": a + w}))); break; } }; env.ctx.step(); if x < a || x > a + w { env.ctx.violation("C18:rand_int:range", &format!("rand_int({}, {}) returned {}", a, a + w, x), env.case("random-helpers", json!({"a": a, "b": a + w}))); } hit.insert(x.to_i32().unwrap_or(i32::MAX)); }
            if hit.len() != (w + 1) as usize { env.ctx.violation("C18:rand_int:coverage", &format!("rand_int({}, {}) hit only {:?} in 200 draws", a, a + w, hit), env.case("random-helpers", json!({"a": a, "b": a + w}))); }
            env.ctx.class("rand_int"); env.ctx.trace();
        } }
    }
    let items = items.into_inner().unwrap();
    if let Some(first) = items.iter().find(|x| x["kind"] == "gen") { let mut s = first.clone(); for k in ["h", "N", "p", "q"] { s[k] = json!("(elided)"); } env.ctx.sample(s); }
    indep::check_primes(env, &items);
}
