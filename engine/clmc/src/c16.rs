//! C16 — Boudot range proof: in-range values prove, nothing else is accepted. Completeness grid; honest prover out of
//! range; (C) exhaustive transplant patterns of an honest proof's sub-proofs onto foreign commitments; leaf edits.
#![allow(non_snake_case)]
use crate::common::*;
use mccore::{int_leaf_paths, json_get, json_set, par_for, path_class, O};
use rug::{Complete, Integer};
use serde_json::{json, Value};
use zkryptium::cl03::commitment::CL03Commitment;
use zkryptium::cl03::keys::{CL03PublicKey, CL03SecretKey};
use zkryptium::cl03::range_proof::Boudot2000RangeProof as RP;
use zkryptium::schemes::algorithms::{Scheme, CL03};

fn commit(x: &Integer, r: &Integer, g: &Integer, h: &Integer, n: &Integer) -> CL03Commitment {
    CL03Commitment { value: (modpow(g, x, n) * modpow(h, r, n)) % n, randomness: r.clone() }
}
fn inv(a: &Integer, n: &Integer) -> Integer { a.clone().invert(n).unwrap_or_default() }
const T_PARAM: u32 = 128; const L_PARAM: u32 = 40;

pub fn run<CS: Suite>(env: &Env)
where CL03<CS>: Scheme<PubKey = CL03PublicKey, PrivKey = CL03SecretKey>, CS::HashAlg: sha2::Digest {
    let seed = env.ctx.seed;
    let w: World<CS> = World::generate(2);
    // two (base1, base2, modulus) settings: issuer (a_0, b, N) and commitment key with its own modulus (g_0, h, N')
    let settings: Vec<(&str, Integer, Integer, Integer)> = vec![("issuer(a0,b,N)", w.bases.0[0].clone(), w.pk.b.clone(), w.pk.N.clone()), ("commitment-key(g0,h,N')", w.cpk_own.g_bases[0].clone(), w.cpk_own.h.clone(), w.cpk_own.N.clone())];
    let widths: Vec<(&str, Integer)> = vec![("1", Integer::from(1)), ("2", Integer::from(2)), ("3", Integer::from(3)), ("4", Integer::from(4)), ("255", Integer::from(255)), ("2^64", pow2(64)), ("2^256-1", pow2(256) - 1u32)];
    let offsets: Vec<(&str, Integer)> = vec![("0", Integer::from(0)), ("1", Integer::from(1)), ("2^32", pow2(32))];
    #[derive(Clone)]
    enum Kind { Complete, OutOfRange, Cheat, Forge, BaseSign, Transplant, Leaf(usize, usize), Statement, SignFlip }
    struct Root { id: String, s: usize, wi: usize, oi: usize, kind: Kind }
    let mut roots = Vec::new();
    for s in 0..2 { for wi in 0..widths.len() { for oi in 0..offsets.len() {
        roots.push(Root { id: format!("{}/{}/w={}/a={}/complete", CS::NAME, settings[s].0, widths[wi].0, offsets[oi].0), s, wi, oi, kind: Kind::Complete });
        if oi == 1 { roots.push(Root { id: format!("{}/{}/w={}/a={}/out-of-range", CS::NAME, settings[s].0, widths[wi].0, offsets[oi].0), s, wi, oi, kind: Kind::OutOfRange }); }
        if oi == 2 && (s == 0 || env.thorough()) { roots.push(Root { id: format!("{}/{}/w={}/a={}/cheating-prover", CS::NAME, settings[s].0, widths[wi].0, offsets[oi].0), s, wi, oi, kind: Kind::Cheat }); }
        if oi == 2 && (s == 1 || env.thorough()) && [0usize, 3, 5, 6].contains(&wi) { roots.push(Root { id: format!("{}/{}/w={}/a={}/adaptive-prover", CS::NAME, settings[s].0, widths[wi].0, offsets[oi].0), s, wi, oi, kind: Kind::Forge }); }
    } } }
    for s in 0..2 { for wi in [1usize, 4, 6] { roots.push(Root { id: format!("{}/{}/w={}/transplant", CS::NAME, settings[s].0, widths[wi].0), s, wi, oi: 1, kind: Kind::Transplant }); roots.push(Root { id: format!("{}/{}/w={}/statement", CS::NAME, settings[s].0, widths[wi].0), s, wi, oi: 1, kind: Kind::Statement }); } }
    for (s, wi) in [(0usize, 4usize), (1, 6)] { if s == 1 && !env.thorough() { continue; } let nch = 16; for ch in 0..nch { roots.push(Root { id: format!("{}/{}/w={}/leaf-edits/chunk{}", CS::NAME, settings[s].0, widths[wi].0, ch), s, wi, oi: 1, kind: Kind::Leaf(ch, nch) }); } }
    roots.push(Root { id: format!("{}/{}/w=255/sign-flip", CS::NAME, settings[0].0), s: 0, wi: 4, oi: 1, kind: Kind::SignFlip });
    roots.push(Root { id: format!("{}/{}/w=255/base-sign", CS::NAME, settings[0].0), s: 0, wi: 4, oi: 1, kind: Kind::BaseSign });
    env.ctx.set_rule("completeness: 2 (bases, modulus) settings x 7 interval widths {1,2,3,4,255,2^64,2^256-1} x 3 offsets {0,1,2^32} x 5 points {a, a+1, mid, b-1, b} => verify = true; honest prover out of range: x in {a-1, b+1, a-2^64, b+2^64} => no accepted proof (a prover panic is a refusal); adaptive cheating prover (harness-side prover that draws omega of each larger-interval proof first and picks the square / rest split after seeing the challenge; tried against both challenge formats) for x in {a-1, b+1, a-2^31, b+2^64} at 4 widths => no accepted proof; bases n - g / n - h against a pool of 64 honest proofs => rejected; cheating prover (hook: square part of a negative rest := 0, rejection loops give up after 64 draws) for x in {a-1, a-2, a-2^16, a-2^31, b+1, b+2, b+2^16, b+2^64} over all 7 widths at a = 2^32 => no accepted proof; transplants: per honest proof, 5 target commitments {commit(a-1), commit(b+1), commit(a-2^64), commit(-5), random group element} x ALL 16 keep/recompute patterns over {E_a_1, E_a_2, E_b_1, E_b_2} with E, E_prime re-targeted => rejected; statement edits: honest first, then shifted intervals of the same width (and an honest proof for the shifted interval must verify right after), bounds a+-1, b+-1, other bases, other modulus => rejected; transplants also re-target the honest commitment to the bounds [a+1, b] and [a, b-1] with all 16 patterns; leaf edits: every integer leaf +1/-1/zero/+N/sibling swap => rejected; sign flips: every group-element leaf v := N - v, searched over a pool of 32 honest proofs (acceptance depends on exponent parities) => rejected. State = (setting, interval, point / attack); non-trivial = the real verifier ran.");
    par_for(&roots, |_, r| {
        if !env.want(&r.id) || env.ctx.out_of_time() { return; }
        let (sn, g, h, n) = (&settings[r.s].0, &settings[r.s].1, &settings[r.s].2, &settings[r.s].3);
        let a = offsets[r.oi].1.clone();
        let b = (&a + &widths[r.wi].1).complete();
        let det0 = json!({"suite": CS::NAME, "setting": sn, "a": sd(&a), "b": sd(&b)});
        let rnd = |lbl: &str| Integer::from_digits(&mccore::fill(seed, &format!("{}-{}", r.id, lbl), 120), rug::integer::Order::MsfBe);
        let prove = |x: &Integer, c: &CL03Commitment, lo: &Integer, hi: &Integer| -> O<RP> { mccore::guard_val(|| RP::prove::<CS::HashAlg>(x, c, g, h, n, lo, hi)) };
        let verify = |p: &RP, g2: &Integer, h2: &Integer, n2: &Integer, lo: &Integer, hi: &Integer| -> O<bool> { vcall(|| p.verify::<CS::HashAlg>(g2, h2, n2, lo, hi)) };
        let mid = (&a + &b).complete() / 2u32;
        match &r.kind {
            Kind::Complete => {
                let pts: Vec<(&str, Integer)> = vec![("a", a.clone()), ("a+1", a.clone() + 1u32), ("mid", mid.clone()), ("b-1", b.clone() - 1u32), ("b", b.clone())];
                for (pn, x) in pts {
                    if x < a || x > b { continue; }
                    if !env.ctx.state(&[r.id.as_bytes(), x.to_string().as_bytes()]) { continue; }
                    let c = commit(&x, &rnd(pn), g, h, n);
                    let p = prove(&x, &c, &a, &b); env.ctx.step();
                    match p { O::Ok(p) => { expect_bool(env, &r.id, &format!("verify(prove(x = {}))", pn), &verify(&p, g, h, n, &a, &b), true, false, "complete", json!({"base": det0, "point": pn}));
                                if p.E != c.value { env.ctx.violation("C16:complete:E-differs", "proof.E is not the commitment it was made for", env.case(&r.id, json!({"base": det0, "point": pn}))); } }
                              o => env.ctx.violation("C16:complete:prove-failed", &format!("honest prover failed for x = {}: {}", pn, o.describe()), env.case(&r.id, json!({"base": det0, "point": pn}))) }
                    env.ctx.class("complete"); env.ctx.trace();
                }
                if r.wi == 4 && r.oi == 1 { env.ctx.sample(json!({"root": r.id, "interval": [sd(&a), sd(&b)], "points": ["a", "a+1", "mid", "b-1", "b"]})); }
            }
            Kind::OutOfRange => {
                for (pn, x) in [("a-1", a.clone() - 1u32), ("b+1", b.clone() + 1u32), ("a-2^64", a.clone() - pow2(64)), ("b+2^64", b.clone() + pow2(64))] {
                    if !env.ctx.state(&[r.id.as_bytes(), pn.as_bytes()]) { continue; }
                    let c = commit(&x, &rnd(pn), g, h, n);
                    let p = prove(&x, &c, &a, &b); env.ctx.step();
                    match p { O::Ok(p) => { expect_bool(env, &r.id, &format!("verify(prove(x = {} out of range))", pn), &verify(&p, g, h, n, &a, &b), false, true, "honest-prover-out-of-range", json!({"base": det0, "point": pn})); env.ctx.class("out-of-range:proof-rejected"); }
                              _ => { env.ctx.class("out-of-range:prover-refused"); env.ctx.add_extra("refusals_by_panic", 1); } }
                    env.ctx.trace();
                }
            }
            Kind::Cheat => {
                // a prover that knows an opening of E to a value OUTSIDE [a, b] and deviates from the protocol where the honest one
                // fails (hook: the square part of a negative number is taken as 0; rejection loops give up after 64 draws)
                for (pn, x) in [("a-1", a.clone() - 1u32), ("a-2", a.clone() - 2u32), ("a-2^16", a.clone() - pow2(16)), ("a-2^31", a.clone() - pow2(31)), ("b+1", b.clone() + 1u32), ("b+2", b.clone() + 2u32), ("b+2^16", b.clone() + pow2(16)), ("b+2^64", b.clone() + pow2(64))] {
                    if !env.ctx.state(&[r.id.as_bytes(), pn.as_bytes()]) { continue; }
                    let c = commit(&x, &rnd(pn), g, h, n);
                    zkryptium::cl03::range_proof::verif_hooks::set_cheating_prover(true);
                    let p = prove(&x, &c, &a, &b); env.ctx.step();
                    zkryptium::cl03::range_proof::verif_hooks::set_cheating_prover(false);
                    match p { O::Ok(p) => { expect_bool(env, &r.id, &format!("verify(proof of a cheating prover for x = {})", pn), &verify(&p, g, h, n, &a, &b), false, true, "cheating-prover-out-of-range", json!({"base": det0, "point": pn})); env.ctx.class("cheating-prover:proof-judged"); }
                              _ => { env.ctx.class("cheating-prover:no-proof"); } }
                    env.ctx.trace();
                }
                // control: the cheating switch changes nothing for an in-range value
                if env.ctx.state(&[r.id.as_bytes(), b"control"]) {
                    let c = commit(&mid, &rnd("cheat-control"), g, h, n);
                    zkryptium::cl03::range_proof::verif_hooks::set_cheating_prover(true);
                    let p = prove(&mid, &c, &a, &b); env.ctx.step();
                    zkryptium::cl03::range_proof::verif_hooks::set_cheating_prover(false);
                    match p { O::Ok(p) => { expect_bool(env, &r.id, "verify(prove(mid)) with the cheating switch on", &verify(&p, g, h, n, &a, &b), true, false, "complete", det0.clone()); }
                              o => env.ctx.violation("C16:complete:prove-failed", &o.describe(), env.case(&r.id, det0.clone())) }
                    env.ctx.class("cheating-prover:control"); env.ctx.trace();
                }
            }
            Kind::Statement => {
                let c = commit(&mid, &rnd("st"), g, h, n);
                let p = match prove(&mid, &c, &a, &b) { O::Ok(p) => p, o => { env.ctx.violation("C16:complete:prove-failed", &o.describe(), env.case(&r.id, det0)); return; } };
                // the honest verification comes first: whatever the verifier remembers from it must not leak into the next ones
                env.ctx.state(&[r.id.as_bytes(), b"honest-first"]);
                expect_bool(env, &r.id, "verify(honest proof) before the statement edits", &verify(&p, g, h, n, &a, &b), true, false, "complete", det0.clone()); env.ctx.trace();
                for d in [1i32, 3, -1] {
                    let (lo, hi) = (a.clone() + d, b.clone() + d);
                    if lo < 0 { continue; }
                    if !env.ctx.state(&[r.id.as_bytes(), format!("shift{}", d).as_bytes()]) { continue; }
                    expect_bool(env, &r.id, &format!("verify against the shifted interval [a{:+}, b{:+}] (same width)", d, d), &verify(&p, g, h, n, &lo, &hi), false, true, "statement:shifted-interval", json!({"base": det0, "shift": d}));
                    // and an honest proof FOR the shifted interval must verify right after
                    let x2 = mid.clone() + d; let c2 = commit(&x2, &rnd(&format!("sh{}", d)), g, h, n);
                    if let O::Ok(p2) = prove(&x2, &c2, &lo, &hi) { expect_bool(env, &r.id, &format!("verify(honest proof for [a{:+}, b{:+}]) after verifying under [a, b]", d, d), &verify(&p2, g, h, n, &lo, &hi), true, false, "complete:after-history", json!({"base": det0, "shift": d})); }
                    env.ctx.class("statement-edit:shifted"); env.ctx.trace();
                }
                expect_bool(env, &r.id, "verify(honest proof) again after the shifted intervals", &verify(&p, g, h, n, &a, &b), true, false, "complete:after-history", det0.clone());
                let (og, oh, on) = (&settings[1 - r.s].1, &settings[1 - r.s].2, &settings[1 - r.s].3);
                let cases: Vec<(&str, Integer, Integer, &Integer, &Integer, &Integer)> = vec![("a+1", a.clone() + 1u32, b.clone(), g, h, n), ("a-1", a.clone() - 1u32, b.clone(), g, h, n), ("b+1", a.clone(), b.clone() + 1u32, g, h, n), ("b-1", a.clone(), b.clone() - 1u32, g, h, n),
                    ("bases swapped", a.clone(), b.clone(), h, g, n), ("other bases", a.clone(), b.clone(), og, oh, n), ("other modulus", a.clone(), b.clone(), g, h, on), ("other bases and modulus", a.clone(), b.clone(), og, oh, on)];
                for (nm, lo, hi, g2, h2, n2) in cases {
                    if hi <= lo { continue; }
                    if !env.ctx.state(&[r.id.as_bytes(), nm.as_bytes()]) { continue; }
                    expect_bool(env, &r.id, &format!("verify against [{}]", nm), &verify(&p, g2, h2, n2, &lo, &hi), false, true, &format!("statement:{}", if nm.contains("a") && nm.len() == 3 || nm.starts_with('b') && nm.len() == 3 { "bounds" } else { "bases-or-modulus" }), json!({"base": det0, "against": nm}));
                    env.ctx.class("statement-edit"); env.ctx.trace();
                }
            }
            Kind::Transplant => {
                // honest proof for x = mid, then re-target it to E' without knowing an in-range opening of E'
                // two honest proofs: for the lower end x = a and for the upper end x = b
                for (which, x0) in [("x=a", a.clone()), ("x=b", b.clone())] {
                let c = commit(&x0, &rnd(which), g, h, n);
                let p = match prove(&x0, &c, &a, &b) { O::Ok(p) => p, o => { env.ctx.violation("C16:complete:prove-failed", &o.describe(), env.case(&r.id, det0.clone())); return; } };
                let j = to_json(&p);
                // targets: (name, commitment E', bounds to verify against). Foreign commitments under the honest bounds, and the
                // honest commitment under shifted bounds (the proof is re-targeted to a statement it was not made for either way)
                let mut targets: Vec<(String, Integer, Integer, Integer)> = if which == "x=b" { vec![] } else { vec![("commit(a-1)".into(), commit(&(a.clone() - 1u32), &rnd("t1"), g, h, n).value, a.clone(), b.clone()), ("commit(b+1)".into(), commit(&(b.clone() + 1u32), &rnd("t2"), g, h, n).value, a.clone(), b.clone()), ("commit(a-2^64)".into(), commit(&(a.clone() - pow2(64)), &rnd("t3"), g, h, n).value, a.clone(), b.clone()), ("commit(-5)".into(), commit(&Integer::from(-5), &rnd("t4"), g, h, n).value, a.clone(), b.clone()), ("random group element".into(), modpow(&rnd("t5"), &Integer::from(2), n), a.clone(), b.clone())] };
                // a commitment to the LOWER END a, re-targeted to [a+1, b] (violates only the lower bound), and to the upper end b for [a, b-1]
                if (&b - &a).complete() > 1 { if which == "x=a" { targets.push(("the honest commitment to a, re-targeted to bounds [a+1, b]".into(), c.value.clone(), a.clone() + 1u32, b.clone())); } else { targets.push(("the honest commitment to b, re-targeted to bounds [a, b-1]".into(), c.value.clone(), a.clone(), b.clone() - 1u32)); } }
                let get = |k: &str| leaf_int(&j["proof_of_tolerance"][k]).unwrap();
                for (tn, e_t, lo, hi) in &targets {
                    if hi <= lo { continue; }
                    let big_t = 2 * (T_PARAM + L_PARAM + 1) + (hi - lo).complete().significant_bits();
                    // the public offsets of the decomposition (scaled interval, [Boudot2000] 3.1.2)
                    let aa = pow2(big_t) * lo;
                    let bb = pow2(big_t) * hi;
                    let e_prime = modpow(e_t, &pow2(big_t), n);
                    let e_a = (e_prime.clone() * inv(&modpow(g, &aa, n), n)) % n;       // E_a = E'/g^aa
                    let e_b = (modpow(g, &bb, n) * inv(&e_prime, n)) % n;               // E_b = g^bb/E'
                    for pat in 0..16u32 {
                        // bit set = keep the honest value of that commitment, recompute its partner from the public relation E_x = E_x_1 * E_x_2
                        let name = format!("{} / {} / pattern {:04b}", which, tn, pat);
                        if !env.ctx.state(&[r.id.as_bytes(), name.as_bytes()]) { continue; }
                        let (mut ea1, mut ea2, mut eb1, mut eb2) = (get("E_a_1"), get("E_a_2"), get("E_b_1"), get("E_b_2"));
                        // a-side: keep E_a_2 (bit1) and solve E_a_1, or keep E_a_1 (bit0) and solve E_a_2; both kept = no adaptation; none kept = both replaced by a fresh split
                        match pat & 3 { 0b10 => ea1 = (e_a.clone() * inv(&ea2, n)) % n, 0b01 => ea2 = (e_a.clone() * inv(&ea1, n)) % n, 0b00 => { ea1 = modpow(g, &Integer::from(4), n); ea2 = (e_a.clone() * inv(&ea1, n)) % n; } _ => {} }
                        match (pat >> 2) & 3 { 0b10 => eb1 = (e_b.clone() * inv(&eb2, n)) % n, 0b01 => eb2 = (e_b.clone() * inv(&eb1, n)) % n, 0b00 => { eb1 = modpow(g, &Integer::from(4), n); eb2 = (e_b.clone() * inv(&eb1, n)) % n; } _ => {} }
                        let mut x = j.clone();
                        x["E"] = int_leaf(e_t); x["E_prime"] = int_leaf(&e_prime);
                        x["proof_of_tolerance"]["E_a_1"] = int_leaf(&ea1); x["proof_of_tolerance"]["E_a_2"] = int_leaf(&ea2); x["proof_of_tolerance"]["E_b_1"] = int_leaf(&eb1); x["proof_of_tolerance"]["E_b_2"] = int_leaf(&eb2);
                        let p2: Option<RP> = from_json(&x);
                        let got = match &p2 { Some(q) => verify(q, g, h, n, lo, hi), None => O::Ok(false) };
                        // the honest proof under its own bounds is the only accepted combination; every target here is a different statement
                        expect_bool(env, &r.id, &format!("verify(transplant onto {})", name), &got, false, true, &format!("transplant:pattern-{:04b}", pat), json!({"base": det0, "target": tn, "pattern(keep E_b_2,E_b_1,E_a_2,E_a_1)": format!("{:04b}", pat)}));
                        env.ctx.class(&format!("transplant:{}", match got { O::Ok(true) => "accepted", O::Ok(false) => "rejected", _ => "refused-by-panic" })); env.ctx.trace();
                    }
                }
                if which == "x=a" { env.ctx.sample(json!({"root": r.id, "targets": targets.iter().map(|t| t.0.clone()).collect::<Vec<_>>(), "patterns": 16})); }
                }
            }
            Kind::BaseSign => {
                // "proofs checked against other bases are rejected": the bases n - g, n - h differ from g, h only in sign, which an
                // even exponent loses; whether an honest proof passes depends on the parity of its responses, so a pool is searched
                let k = if env.thorough() { 128 } else { 64 };
                let pool: Vec<RP> = (0..k).filter_map(|i| { let c = commit(&mid, &rnd(&format!("bs{}", i)), g, h, n); prove(&mid, &c, &a, &b).ok() }).collect();
                if pool.is_empty() { env.machinery("base-sign pool empty"); return; }
                for (nm, g2, h2) in [("g := n - g", (n - g).complete(), h.clone()), ("h := n - h", g.clone(), (n - h).complete()), ("g := n - g, h := n - h", (n - g).complete(), (n - h).complete())] {
                    env.ctx.state(&[r.id.as_bytes(), nm.as_bytes()]);
                    let mut hit = None;
                    for (i, p) in pool.iter().enumerate() { env.ctx.step(); if accepted(&verify(p, &g2, &h2, n, &a, &b)) { hit = Some(i); break; } }
                    if let Some(i) = hit { env.ctx.violation("C16:statement:base-sign:accepted", &format!("an honest proof (#{} of a pool of {}) verifies against the bases with [{}]", i, pool.len(), nm), env.case(&r.id, json!({"base": det0, "bases": nm, "pool": pool.len()}))); }
                    env.ctx.class(if hit.is_some() { "base-sign:accepted" } else { "base-sign:rejected" }); env.ctx.trace();
                }
            }
            Kind::Forge => {
                // a prover that knows an opening of E to a value outside [a, b], draws the first message of each larger-interval
                // proof BEFORE fixing the decomposition, and chooses the square / rest split once it knows the challenge
                for (pn, x) in [("a-1", a.clone() - 1u32), ("b+1", b.clone() + 1u32), ("a-2^31", a.clone() - pow2(31)), ("b+2^64", b.clone() + pow2(64))] {
                    // a prover that does not decompose at all: E_x_1 := commitment to the whole (negative) side value, rest 0, and a
                    // proof of square that is about some other commitment (to 1^2)
                    for (ua, ub, which) in [(true, true, "both sides"), (true, false, "lower side only"), (false, true, "upper side only")] {
                        if !env.ctx.state(&[r.id.as_bytes(), pn.as_bytes(), b"unbound-square", which.as_bytes()]) { continue; }
                        let rr = rnd(pn); let e = commit(&x, &rr, g, h, n).value;
                        let forged = mccore::guard_val(|| adaptive::forge_unbound_square::<CS::HashAlg>(&x, &rr, &e, g, h, n, &a, &b, ua, ub)); env.ctx.step();
                        match forged { O::Ok(Some(p)) => { expect_bool(env, &r.id, &format!("verify(proof for x = {} whose proof of square is about another commitment on {})", pn, which), &verify(&p, g, h, n, &a, &b), false, true, "unbound-square-out-of-range", json!({"base": det0, "point": pn, "unbound": which})); env.ctx.class("unbound-square:proof-judged"); }
                                       _ => env.ctx.class("unbound-square:no-proof") }
                        env.ctx.trace();
                    }
                    // a prover that runs the honest protocol on an in-range opening but names the target commitment as E, then
                    // replaces E' by the power of the commitment it can really open (E and E' no longer belong together)
                    if env.ctx.state(&[r.id.as_bytes(), pn.as_bytes(), b"mismatched-E-prime"]) {
                        let (r_in, r_out) = (rnd("mm-in"), rnd(pn));
                        let target = commit(&x, &r_out, g, h, n).value;
                        let opened = commit(&mid, &r_in, g, h, n).value;
                        let big_t = 2 * (T_PARAM + L_PARAM + 1) + (&b - &a).complete().significant_bits();
                        let made = prove(&mid, &CL03Commitment { value: target.clone(), randomness: r_in.clone() }, &a, &b); env.ctx.step();
                        if let O::Ok(p0) = made {
                            let mut j = to_json(&p0); j["E_prime"] = int_leaf(&modpow(&opened, &pow2(big_t), n));
                            if let Some(p) = from_json::<RP>(&j) { expect_bool(env, &r.id, &format!("verify(proof for an in-range opening presented for the commitment to x = {}, E' taken from the opened commitment)", pn), &verify(&p, g, h, n, &a, &b), false, true, "mismatched-E-prime", json!({"base": det0, "point": pn})); }
                            env.ctx.class("mismatched-E-prime:judged");
                        } else { env.ctx.class("mismatched-E-prime:no-proof"); }
                        env.ctx.trace();
                    }
                    for fmt in ["H(omega)", "H(omega, E_x_2, statement)"] {
                        if !env.ctx.state(&[r.id.as_bytes(), pn.as_bytes(), fmt.as_bytes()]) { continue; }
                        let rr = rnd(pn);
                        let e = commit(&x, &rr, g, h, n).value;
                        let forged = mccore::guard_val(|| adaptive::forge::<CS::HashAlg>(&x, &rr, &e, g, h, n, &a, &b, fmt == "H(omega)")); env.ctx.step();
                        match forged { O::Ok(Some(p)) => { expect_bool(env, &r.id, &format!("verify(proof of an adaptive cheating prover for x = {}, assuming the challenge is {})", pn, fmt), &verify(&p, g, h, n, &a, &b), false, true, "adaptive-prover-out-of-range", json!({"base": det0, "point": pn, "challenge_format_assumed": fmt})); env.ctx.class("adaptive-prover:proof-judged"); }
                                       _ => env.ctx.class("adaptive-prover:no-proof") }
                        env.ctx.trace();
                    }
                }
            }
            Kind::SignFlip => {
                let k = if env.thorough() { 64 } else { 32 };
                let pool: Vec<Value> = (0..k).filter_map(|i| { let c = commit(&mid, &rnd(&format!("sf{}", i)), g, h, n); prove(&mid, &c, &a, &b).ok().map(|p| to_json(&p)) }).collect();
                if pool.is_empty() { env.machinery("sign-flip pool empty"); return; }
                let res = sign_flip_search(&pool, n, &|_k, x| match from_json::<RP>(x) { Some(q) => vcall(|| q.verify::<CS::HashAlg>(g, h, n, &a, &b)), None => O::Ok(false) });
                report_sign_flips(env, &r.id, "range proof", &res, pool.len(), det0.clone());
            }
            Kind::Leaf(ch, nch) => {
                let c = commit(&mid, &rnd("lf"), g, h, n);
                let p = match prove(&mid, &c, &a, &b) { O::Ok(p) => p, o => { env.ctx.violation("C16:complete:prove-failed", &o.describe(), env.case(&r.id, det0)); return; } };
                let j = to_json(&p);
                let leaves = int_leaf_paths(&j);
                for (li, path) in leaves.iter().enumerate() {
                    if li % nch != *ch { continue; }
                    let cur = leaf_int(json_get(&j, path).unwrap()).unwrap();
                    let mut edits: Vec<(String, Value)> = leaf_perturbations_mod(&cur, &[("N", n)]).into_iter().map(|(nm, v)| { let mut x = j.clone(); json_set(&mut x, path, int_leaf(&v)); (nm, x) }).collect();
                    if let Some(sib) = leaves.iter().skip(li + 1).find(|q| q.len() == path.len() && q[..q.len() - 1] == path[..path.len() - 1]) {
                        let ov = json_get(&j, sib).unwrap().clone();
                        if ov != *json_get(&j, path).unwrap() { let mut x = j.clone(); json_set(&mut x, path, ov); json_set(&mut x, sib, int_leaf(&cur)); edits.push((format!("swap with {}", sib.last().unwrap()), x)); }
                    }
                    for (nm, x) in edits {
                        let name = format!("/{} {}", path.join("/"), nm);
                        if !env.ctx.state(&[r.id.as_bytes(), name.as_bytes()]) { continue; }
                        let p2: Option<RP> = from_json(&x);
                        let got = match &p2 { Some(q) => verify(q, g, h, n, &a, &b), None => O::Ok(false) };
                        expect_bool(env, &r.id, &format!("verify after leaf edit {}", name), &got, false, true, &format!("leaf-edit{}:/{}", if nm.contains('N') { ":other-representative" } else { "" }, path_class(path)), json!({"base": det0, "leaf": path.join("/"), "edit": nm}));
                        env.ctx.class(&format!("leaf:{}", match got { O::Ok(false) => "rejected", O::Ok(true) => "accepted", _ => "refused-by-panic" })); env.ctx.trace();
                    }
                }
                env.ctx.extra("leaves_per_range_proof", json!(leaves.len()));
            }
        }
    });
}


/// Harness-side cheating prover (adapted from a demonstration written by a review sub-agent): everything is computed from the
/// opening (x, r) of E with the library's own parameter choices; the only deviation is the ORDER inside the larger-interval
/// proofs - first message first, decomposition after the challenge is known.
mod adaptive {
    use super::*;
    use rug::integer::Order;
    use rug::ops::Pow;
    use zkryptium::utils::random::rand_int;
    const T_: u32 = 128; const L_: u32 = 40; const S_: u32 = 40;
    fn two(k: u32) -> Integer { Integer::from(1) << k }
    fn com(g: &Integer, x: &Integer, h: &Integer, r: &Integer, n: &Integer) -> Integer { let v = (modpow(g, x, n) * modpow(h, r, n)) % n; if v < 0 { v + n } else { v } }
    fn sym(bound: &Integer) -> Integer { rand_int(-bound.clone() + Integer::from(1), bound.clone() - Integer::from(1)) }
    fn hash<H: sha2::Digest>(s: String) -> Integer { Integer::from_digits(H::digest(s).as_slice(), Order::MsfBe) }

    /// (C, D_1, D_2, y) with x_side = y^2 + x_2. `plain`: the challenge is H(omega); otherwise it also covers E_x_2 (= E_x / commit(y^2))
    /// and a statement string, which the attacker can only chase by iterating (bounded).
    #[allow(clippy::too_many_arguments)]
    fn cheat_li<H: sha2::Digest>(xs: &Integer, r1: &Integer, r2: &Integer, e_side: &Integer, ctx: &str, g: &Integer, h: &Integer, n: &Integer, b_rest: &Integer, big_t: u32, plain: bool) -> Option<(Integer, Integer, Integer, Integer)> {
        let top = two(T_ + L_) * b_rest - Integer::from(1);
        let w = two(T_) * (xs.clone().abs() + b_rest + two(big_t));
        for _ in 0..24 {
            let nu = sym(&(two(big_t + T_ + L_ + S_) * n));
            let omega = com(g, &w, h, &nu, n);
            let mut y = Integer::from(0);
            for _round in 0..(if plain { 1 } else { 6 }) {
                let e2 = { let e1 = com(g, &y.clone().pow(2), h, r1, n); (e_side.clone() * e1.invert(n).ok()?) % n };
                let big_c = if plain { hash::<H>(omega.to_string()) } else { hash::<H>(omega.to_string() + &e2.to_string() + ctx) };
                let c = Integer::from(&big_c % two(T_));
                if c == 0 { break; }
                let hi = Integer::from(&w / &c) + xs - b_rest;
                if hi < 0 { break; }
                let y2 = hi.sqrt();
                let x2 = xs.clone() - y2.clone().pow(2);
                let d1 = w.clone() + (&c * &x2).complete();
                if y2 == y || plain { if (&c * b_rest).complete() <= d1 && d1 <= top { return Some((big_c, d1, nu + &c * r2, y2)); } if plain { break; } }
                y = y2;
            }
        }
        None
    }
    #[allow(clippy::too_many_arguments)]
    fn square<H: sha2::Digest>(y: &Integer, r1: &Integer, e: &Integer, ctx: &str, g: &Integer, h: &Integer, n: &Integer, bsq: &Integer, s2: u32, plain: bool) -> Value {
        let r2 = sym(&(two(S_) * n));
        let f = com(g, y, h, &r2, n);
        let r3 = r1.clone() - (&r2 * y).complete();
        let omega = rand_int(Integer::from(1), two(L_ + T_) * bsq - Integer::from(1));
        let mu1 = rand_int(Integer::from(1), two(L_ + T_ + 40) * n - Integer::from(1));
        let mu2 = rand_int(Integer::from(1), two(L_ + T_ + s2) * n - Integer::from(1));
        let (w1, w2) = (com(g, &omega, h, &mu1, n), com(&f, &omega, h, &mu2, n));
        let mut st = w1.to_string() + &w2.to_string() + &f.to_string() + &e.to_string();
        if !plain { st += ctx; }
        let ch = hash::<H>(st) % two(T_);
        let (d, d1, d2) = (omega + &ch * y, mu1 + &ch * &r2, mu2 + &ch * &r3);
        json!({"E": int_leaf(e), "F": int_leaf(&f), "proof_ss": {"challenge": int_leaf(&ch), "d": int_leaf(&d), "d_1": int_leaf(&d1), "d_2": int_leaf(&d2)}})
    }
    /// No decomposition: E_x_1 commits to the whole side value (negative for an out-of-range x), the rest is 0 (so the honest
    /// larger-interval proof for 0 passes), and the proofs of square are honest proofs about a DIFFERENT commitment (to 1^2).
    #[allow(clippy::too_many_arguments)]
    pub fn forge_unbound_square<H: sha2::Digest>(x: &Integer, r: &Integer, e: &Integer, g: &Integer, h: &Integer, n: &Integer, a: &Integer, b: &Integer, unbound_a: bool, unbound_b: bool) -> Option<RP> {
        let big_t = 2 * (T_ + L_ + 1) + (b - a).complete().significant_bits();
        let (aa, bb) = (two(big_t) * a, two(big_t) * b);
        let root = (&bb - &aa).complete().sqrt();
        let b_rest: Integer = root.clone() * 2 + Integer::from(2);
        let bsq = root + Integer::from(1);
        let s2 = 552u32.max(S_ + big_t + 1);
        let (xp, rp) = (two(big_t) * x, two(big_t) * r);
        let e_prime = modpow(e, &two(big_t), n);
        let ctx = super::statement_string(g, h, n, a, b, e);
        let (xa, xb) = ((&xp - &aa).complete(), (&bb - &xp).complete());
        let ra1 = sym(&(two(S_ + big_t) * n)); let ra2 = (&rp - &ra1).complete();
        let rb1 = sym(&(two(S_ + big_t) * n)); let rb2 = -rp.clone() - &rb1;
        // per side: unbound = E_x_1 commits to the whole side value and the rest is 0; otherwise the honest decomposition
        let split = |xs: &Integer, unbound: bool| -> Option<(Integer, Integer, Integer)> { if unbound { Some((xs.clone(), Integer::from(0), Integer::from(1))) } else { if *xs < 0 { return None; } let y = xs.clone().sqrt(); Some((y.clone() * &y, xs.clone() - y.clone() * &y, y)) } };
        let (va1, va2, ya) = split(&xa, unbound_a)?;
        let (vb1, vb2, yb) = split(&xb, unbound_b)?;
        let (ea1, ea2) = (com(g, &va1, h, &ra1, n), com(g, &va2, h, &ra2, n));
        let (eb1, eb2) = (com(g, &vb1, h, &rb1, n), com(g, &vb2, h, &rb2, n));
        // honest larger-interval proofs for the rest 0 (challenge format of the repaired library)
        let li = |x2: &Integer, r2: &Integer, e2: &Integer| -> Option<Value> {
            let top: Integer = two(T_ + L_) * b_rest.clone() - Integer::from(1);
            for _ in 0..64 {
                let w = rand_int(Integer::from(0), top.clone());
                let nu = sym(&(two(big_t + T_ + L_ + S_) * n));
                let omega = com(g, &w, h, &nu, n);
                let big_c = hash::<H>(omega.to_string() + &e2.to_string() + &ctx);
                let c = Integer::from(&big_c % two(T_));
                let d1 = w.clone() + (&c * x2).complete();
                if c.clone() * &b_rest <= d1 && d1 <= top { return Some(json!({"C": int_leaf(&big_c), "D_1": int_leaf(&d1), "D_2": int_leaf(&(nu + &c * r2))})); }
            }
            None
        };
        // honest proofs of square, but about fresh commitments to 1^2
        let one = Integer::from(1);
        let (rs_a, rs_b) = (sym(&(two(S_) * n)), sym(&(two(S_) * n)));
        let (sq_a, sq_b) = (com(g, &one, h, &rs_a, n), com(g, &one, h, &rs_b, n));
        let psq_a = if unbound_a { square::<H>(&one, &rs_a, &sq_a, &ctx, g, h, n, &bsq, s2, false) } else { square::<H>(&ya, &ra1, &ea1, &ctx, g, h, n, &bsq, s2, false) };
        let psq_b = if unbound_b { square::<H>(&one, &rs_b, &sq_b, &ctx, g, h, n, &bsq, s2, false) } else { square::<H>(&yb, &rb1, &eb1, &ctx, g, h, n, &bsq, s2, false) };
        let j = json!({
            "proof_of_tolerance": {
                "E_a_1": int_leaf(&ea1), "E_a_2": int_leaf(&ea2), "E_b_1": int_leaf(&eb1), "E_b_2": int_leaf(&eb2),
                "proof_of_square_a": psq_a,
                "proof_of_square_b": psq_b,
                "proof_large_i_a": li(&va2, &ra2, &ea2)?, "proof_large_i_b": li(&vb2, &rb2, &eb2)?,
            },
            "E_prime": int_leaf(&e_prime), "E": int_leaf(e),
        });
        from_json::<RP>(&j)
    }
    #[allow(clippy::too_many_arguments)]
    pub fn forge<H: sha2::Digest>(x: &Integer, r: &Integer, e: &Integer, g: &Integer, h: &Integer, n: &Integer, a: &Integer, b: &Integer, plain: bool) -> Option<RP> {
        let big_t = 2 * (T_ + L_ + 1) + (b - a).complete().significant_bits();
        let (aa, bb) = (two(big_t) * a, two(big_t) * b);
        let root = (&bb - &aa).complete().sqrt();
        let b_rest = root.clone() * 2 + Integer::from(2);
        let bsq = root + Integer::from(1);
        let s2 = 552u32.max(S_ + big_t + 1);
        let (xp, rp) = (two(big_t) * x, two(big_t) * r);
        let e_prime = modpow(e, &two(big_t), n);
        let ctx = super::statement_string(g, h, n, a, b, e);
        let (xa, xb) = ((&xp - &aa).complete(), (&bb - &xp).complete());
        let ra1 = sym(&(two(S_ + big_t) * n)); let ra2 = (&rp - &ra1).complete();
        let rb1 = sym(&(two(S_ + big_t) * n)); let rb2 = -rp.clone() - &rb1;
        let e_a = (e_prime.clone() * modpow(g, &aa, n).invert(n).ok()?) % n;
        let e_b = (modpow(g, &bb, n) * e_prime.clone().invert(n).ok()?) % n;
        let (ca, da1, da2, ya) = cheat_li::<H>(&xa, &ra1, &ra2, &e_a, &ctx, g, h, n, &b_rest, big_t, plain)?;
        let (cb, db1, db2, yb) = cheat_li::<H>(&xb, &rb1, &rb2, &e_b, &ctx, g, h, n, &b_rest, big_t, plain)?;
        let ea1 = com(g, &ya.clone().pow(2), h, &ra1, n); let ea2 = com(g, &(xa.clone() - ya.clone().pow(2)), h, &ra2, n);
        let eb1 = com(g, &yb.clone().pow(2), h, &rb1, n); let eb2 = com(g, &(xb.clone() - yb.clone().pow(2)), h, &rb2, n);
        let j = json!({
            "proof_of_tolerance": {
                "E_a_1": int_leaf(&ea1), "E_a_2": int_leaf(&ea2), "E_b_1": int_leaf(&eb1), "E_b_2": int_leaf(&eb2),
                "proof_of_square_a": square::<H>(&ya, &ra1, &ea1, &ctx, g, h, n, &bsq, s2, plain),
                "proof_of_square_b": square::<H>(&yb, &rb1, &eb1, &ctx, g, h, n, &bsq, s2, plain),
                "proof_large_i_a": {"C": int_leaf(&ca), "D_1": int_leaf(&da1), "D_2": int_leaf(&da2)},
                "proof_large_i_b": {"C": int_leaf(&cb), "D_1": int_leaf(&db1), "D_2": int_leaf(&db2)},
            },
            "E_prime": int_leaf(&e_prime), "E": int_leaf(e),
        });
        from_json::<RP>(&j)
    }
}

/// The statement string a repaired library puts into every Fiat-Shamir hash of the range proof (bases, modulus, bounds, commitment).
pub fn statement_string(g: &Integer, h: &Integer, n: &Integer, a: &Integer, b: &Integer, e: &Integer) -> String {
    g.to_string() + &h.to_string() + &n.to_string() + &a.to_string() + &b.to_string() + &e.to_string()
}
