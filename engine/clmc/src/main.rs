//! clmc — bounded exhaustive exploration of the CL03 properties (C13–C19) on the real zkryptium (feature cl03).
//!   clmc check <ID> [--tier quick|thorough] | replay <file>
mod common;
mod c13;
mod c14;
mod c15;
mod c16;
mod c17;
mod c18;
mod c19;
mod indep;

use common::Env;
use mccore::{Ctx, Out, Tier};
use zkryptium::cl03::ciphersuites::{CL1024Sha256, CL2048Sha256, CL3072Sha256};

fn level_of(id: &str) -> &'static str { match id { "C17" | "C18" | "C19" => "exploration", _ => "model_checking" } }

fn run(id: &str, tier: Tier, seed: u64, only_root: Option<String>, out: &Out) -> i32 {
    let env = Env::new(Ctx::new(id, tier, seed, level_of(id)), only_root);
    env.ctx.assume("trusted base: rug/GMP big-integer arithmetic (shared with the subject), sha2; generic-C GMP bootstrapped offline");
    env.ctx.assume("keys are generated afresh on every run by the real KeyPair::generate (random draws are samples; shapes are enumerated exhaustively)");
    let t = tier.thorough();
    match id {
        "C13" => { let p = std::sync::Mutex::new(Vec::new()); c13::run::<CL1024Sha256>(&env, &p); if t { c13::run::<CL2048Sha256>(&env, &p); } indep::check_primes(&env, &p.into_inner().unwrap()); }
        "C14" => { c14::run::<CL1024Sha256>(&env); if t { c14::run::<CL2048Sha256>(&env); } }
        "C15" => { c15::run::<CL1024Sha256>(&env); if t { c15::run::<CL2048Sha256>(&env); } }
        "C16" => { c16::run::<CL1024Sha256>(&env); if t { c16::run::<CL2048Sha256>(&env); } }
        "C17" => { c17::run::<CL1024Sha256>(&env); if t { c17::run::<CL2048Sha256>(&env); } }
        "C18" => {
            // thorough: the three suites run concurrently in ONE process (wall time = the slowest key generation; and state
            // shared between ciphersuite instantiations shows). VERIF_CL_SUITES=CL1024,CL2048 restricts the set.
            let sel = std::env::var("VERIF_CL_SUITES").unwrap_or_else(|_| "CL1024,CL2048,CL3072".into());
            let on = |n: &str| sel.split(',').any(|x| x.trim() == n);
            if !t { c18::run::<CL1024Sha256>(&env); } else {
                std::thread::scope(|sc| {
                    if on("CL1024") { sc.spawn(|| c18::run::<CL1024Sha256>(&env)); }
                    if on("CL2048") { sc.spawn(|| c18::run::<CL2048Sha256>(&env)); }
                    if on("CL3072") { sc.spawn(|| c18::run::<CL3072Sha256>(&env)); }
                });
            }
        }
        "C19" => { c19::run::<CL1024Sha256>(&env); if t { c19::run::<CL2048Sha256>(&env); } else { c19::run_fixture::<CL2048Sha256>(&env, include_str!("../fixtures/CL2048_keypair.json")); } }
        _ => { out.line(&format!("MACHINERY-ERROR: unknown property {}", id)); return 2; }
    }
    let code = env.ctx.finish(out);
    if env.has_machinery_error() { out.line("MACHINERY-ERROR: harness failure (see notes in evidence)"); return 2; }
    code
}

fn main() {
    let args: Vec<String> = std::env::args().collect();
    let out = Out::capture();
    mccore::quiet_panics();
    let seed: u64 = std::env::var("VERIF_SEED").ok().and_then(|s| s.parse().ok()).unwrap_or(0);
    let code = match args.get(1).map(|s| s.as_str()) {
        Some("check") => {
            let id = args.get(2).cloned().unwrap_or_default();
            let mut tier = match std::env::var("VERIF_TIER").as_deref() { Ok("thorough") => Tier::Thorough, _ => Tier::Quick };
            if let Some(p) = args.iter().position(|a| a == "--tier") { tier = if args.get(p + 1).map(|s| s.as_str()) == Some("thorough") { Tier::Thorough } else { Tier::Quick }; }
            let only = args.iter().position(|a| a == "--root").and_then(|p| args.get(p + 1).cloned());
            run(&id, tier, seed, only, &out)
        }
        Some("genkey") => {
            // one-off: prints a freshly generated key pair of the named suite as JSON (how engine/clmc/fixtures/*.json were made)
            use zkryptium::keys::pair::KeyPair; use zkryptium::schemes::algorithms::CL03;
            match args.get(2).map(|s| s.as_str()) {
                Some("CL2048") => out.line(&serde_json::to_string(&KeyPair::<CL03<CL2048Sha256>>::generate()).unwrap()),
                Some("CL1024") => out.line(&serde_json::to_string(&KeyPair::<CL03<CL1024Sha256>>::generate()).unwrap()),
                _ => out.line("usage: clmc genkey CL1024|CL2048"),
            }
            0
        }
        Some("replay") => {
            let path = args.get(2).cloned().unwrap_or_default();
            match std::fs::read_to_string(&path).ok().and_then(|s| serde_json::from_str::<serde_json::Value>(&s).ok()) {
                None => { out.line(&format!("MACHINERY-ERROR: cannot read replay file {}", path)); 2 }
                Some(v) => {
                    let id = v["property"].as_str().unwrap_or("").to_string();
                    let root = v["case"]["root"].as_str().unwrap_or("").to_string();
                    let tier = if v["case"]["tier"] == "thorough" { Tier::Thorough } else { Tier::Quick };
                    out.line(&format!("replaying {} root={} with freshly generated keys (recorded: {})", id, root, v["what"].as_str().unwrap_or("")));
                    std::env::set_var("VERIF_REPLAY", "1");
                    run(&id, tier, v["case"]["seed"].as_u64().unwrap_or(0), Some(root), &out)
                }
            }
        }
        _ => { out.line("usage: clmc check <ID> [--tier quick|thorough] | replay <file>"); 2 }
    };
    std::process::exit(code);
}
