fn main(){}
