//! C13 — CL03 signatures: issued ones verify, nothing else does (form A, deviation bound <= 1).
#![allow(non_snake_case)]
use crate::common::*;
use mccore::{par_for, subsets, tuples, O};
use rug::{integer::IsPrime, Integer};
use serde_json::{json, Value};
use zkryptium::cl03::bases::Bases;
use zkryptium::cl03::keys::{CL03PublicKey, CL03SecretKey};
use zkryptium::schemes::algorithms::{Scheme, CL03};
use zkryptium::schemes::generics::Signature;

type Sig<CS> = Signature<CL03<CS>>;

fn sig_parts(j: &Value) -> (Integer, Integer, Integer) {
    (leaf_int(&j["CL03"]["e"]).unwrap(), leaf_int(&j["CL03"]["s"]).unwrap(), leaf_int(&j["CL03"]["v"]).unwrap())
}
fn mk_sig<CS: Suite>(e: &Integer, s: &Integer, v: &Integer) -> Option<Sig<CS>> where CL03<CS>: Scheme {
    from_json(&json!({"CL03": {"e": int_leaf(e), "s": int_leaf(s), "v": int_leaf(v)}}))
}

/// Byte codec on signature objects whose components have unusual magnitudes (short v, small e / s): the codec is positional
/// for e and s and takes v as the rest, so every such object must survive to_bytes / from_bytes unchanged. Shared with C18.
pub fn codec_magnitudes<CS: Suite>(env: &Env, n: &Integer) where CL03<CS>: Scheme {
    {
        let n = n.clone(); let bits = n.significant_bits();
        let id = format!("{}/codec-magnitudes", CS::NAME);
        if env.want(&id) {
            // beyond the nominal sizes (le / ls BITS) up to what the positional codec can hold (le / ls OCTETS): objects that still verify
            // exist there (s + k * p'q' for any k), and whatever the codec does with them it must not hand back a DIFFERENT object
            let es = [Integer::from(1), pow2(CS::le - 1) + 1u32, pow2(CS::le) - 1u32, pow2(CS::le) + 1u32, pow2(CS::le + 7) + 3u32, pow2(CS::le + 8) + 3u32, pow2(2 * CS::le) + 5u32, pow2(8 * CS::le) - 1u32];
            let ss = [Integer::from(0), Integer::from(1), pow2(CS::ls) - 1u32, pow2(CS::ls) + 1u32, pow2(CS::ls + 1) - 1u32, pow2(CS::ls + 7) + 3u32, pow2(CS::ls + 8) + 3u32, pow2(CS::ls + 90) + 7u32, pow2(2 * CS::ls) + 5u32, pow2(8 * CS::ls) - 1u32];
            let vs = [Integer::from(1), Integer::from(255), Integer::from(256), pow2(bits - 9), pow2(bits - 8) - 1u32, pow2(bits - 8), pow2(bits - 16) + 5u32, n.clone() - 1u32];
            for e in &es { for s_ in &ss { for v in &vs {
                env.ctx.state(&[id.as_bytes(), e.to_string_radix(16).as_bytes(), s_.to_string_radix(16).as_bytes(), v.to_string_radix(16).as_bytes()]); env.ctx.step();
                if let Some(sig) = mk_sig::<CS>(e, s_, v) {
                    let rt = mccore::guard_val(|| Sig::<CS>::from_bytes(&sig.to_bytes()));
                    // s of ls + 1 bits is NOT oversize: unblind_sign hands out s = r + r', which carries into bit ls when r' has its top bits set
                    let oversize = e.significant_bits() > CS::le || s_.significant_bits() > CS::ls + 1;
                    // oversize components: a loud refusal (panic) is tolerated, a silently different object is not
                    if oversize && matches!(rt, O::Panic(_)) { env.ctx.class("codec-magnitudes:oversize-refused"); }
                    else if rt.clone().ok().as_ref() != Some(&sig) { env.ctx.violation(&format!("{}:roundtrip:bytes:magnitudes", env.ctx.prop), &format!("from_bytes(to_bytes(sig)) != sig for a signature object with e of {} bits, s of {} bits, v of {} bits: {}", e.significant_bits(), s_.significant_bits(), v.significant_bits(), rt.kind()), env.case(&id, json!({"suite": CS::NAME, "e_bits": e.significant_bits(), "s_bits": s_.significant_bits(), "v_bits": v.significant_bits()}))); }
                }
                env.ctx.class("codec-magnitudes"); env.ctx.trace();
            } } }
        }
    }
}

pub fn run<CS: Suite>(env: &Env, primes_out: &std::sync::Mutex<Vec<Value>>)
where
    CL03<CS>: Scheme<PubKey = CL03PublicKey, PrivKey = CL03SecretKey>,
    CS::HashAlg: sha2::Digest,
{
    let seed = env.ctx.seed;
    let A = attr_alphabet(CS::lm);
    let nkeys = if env.thorough() { 2 } else { 1 };
    let worlds: Vec<World<CS>> = { let v = std::sync::Mutex::new(Vec::new()); par_for(&(0..nkeys + 1).collect::<Vec<_>>(), |_, _| { let w = World::<CS>::generate(4); v.lock().unwrap().push(w); }); v.into_inner().unwrap() };
    let other = &worlds[nkeys];
    // attribute vectors: all vectors over A for n <= 2; boundary vectors for n = 3, 4
    let mut vectors: Vec<Vec<usize>> = Vec::new();
    for n in 1..=2 { vectors.extend(tuples(A.len(), n)); }
    for n in 3..=4 { for a in 0..A.len() { vectors.push(vec![a; n]); } vectors.push((0..n).map(|i| i % A.len()).collect()); vectors.push((0..n).map(|i| (A.len() - 1 - i) % A.len()).collect()); vectors.push((0..n).map(|i| if i == n - 1 { 2 } else { 0 }).collect()); }
    struct Root { id: String, w: usize, vec: Vec<usize>, single_api: bool }
    let mut roots = Vec::new();
    for w in 0..nkeys { for v in &vectors { roots.push(Root { id: format!("{}/key{}/{:?}", CS::NAME, w, v), w, vec: v.clone(), single_api: false }); if v.len() == 1 { roots.push(Root { id: format!("{}/key{}/{:?}/sign()", CS::NAME, w, v), w, vec: v.clone(), single_api: true }); } } }
    par_for(&roots, |_, r| {
        if !env.want(&r.id) || env.ctx.out_of_time() { return; }
        let w = &worlds[r.w];
        let n = r.vec.len();
        let m: Vec<Integer> = r.vec.iter().map(|&i| A[i].1.clone()).collect();
        let names: Vec<&str> = r.vec.iter().map(|&i| A[i].0).collect();
        let bases = Bases(w.bases.0[..n].to_vec());
        let det0 = json!({"suite": CS::NAME, "attributes": names, "api": if r.single_api { "sign/verify" } else { "sign_multiattr/verify_multiattr" }});
        env.ctx.state(&[r.id.as_bytes()]);
        let sig: O<Sig<CS>> = mccore::guard_val(|| if r.single_api { Sig::<CS>::sign(&w.pk, &w.sk, &bases, &msg(&m[0])) } else { Sig::<CS>::sign_multiattr(&w.pk, &w.sk, &bases, &msgs(&m)) });
        env.ctx.step();
        let sig = match sig { O::Ok(s) => s, o => { env.ctx.violation("C13:sign-failed", &o.describe(), env.case(&r.id, det0)); return; } };
        let verify = |s: &Sig<CS>, b: &Bases, mm: &[Integer], pk: &CL03PublicKey| -> O<bool> { let mv = msgs(mm); vcall(|| if r.single_api { s.verify(pk, b, &mv[0]) } else { s.verify_multiattr(pk, b, &mv) }) };
        expect_bool(env, &r.id, "verify(sign(m))", &verify(&sig, &bases, &m, &w.pk), true, false, "complete:verify", det0.clone());
        if n == 1 && !r.single_api { let mv = msgs(&m); expect_bool(env, &r.id, "verify (single-attribute API) of a sign_multiattr signature", &vcall(|| sig.verify(&w.pk, &bases, &mv[0])), true, false, "complete:verify-cross-api", det0.clone()); }
        let j = to_json(&sig);
        let (e, s, v) = sig_parts(&j);
        // exponent: exact bit length, prime, coprime to the group order
        let phi = w.phi();
        if e.significant_bits() != CS::le { env.ctx.violation("C13:e:bit-length", &format!("e has {} bits, expected {}", e.significant_bits(), CS::le), env.case(&r.id, det0.clone())); }
        if e.is_probably_prime(40) == IsPrime::No { env.ctx.violation("C13:e:not-prime", "e is composite", env.case(&r.id, json!({"base": det0, "e": e.to_string_radix(16)}))); }
        if e.clone().gcd(&phi) != 1 { env.ctx.violation("C13:e:not-coprime", "gcd(e, phi(N)) != 1", env.case(&r.id, det0.clone())); }
        primes_out.lock().unwrap().push(json!({"kind": "e", "root": r.id, "value": e.to_string_radix(16), "bits": CS::le}));
        // codecs
        let rt = mccore::guard_val(|| Sig::<CS>::from_bytes(&sig.to_bytes())); env.ctx.step();
        if rt.clone().ok().as_ref() != Some(&sig) { env.ctx.violation("C13:roundtrip:bytes", "from_bytes(to_bytes(sig)) != sig", env.case(&r.id, det0.clone())); }
        if from_json::<Sig<CS>>(&j).as_ref() != Some(&sig) { env.ctx.violation("C13:roundtrip:json", "JSON round trip changes the signature", env.case(&r.id, det0.clone())); }
        // selective disclosure of bases for all subsets of positions
        if !r.single_api { for u in subsets(n) {
            env.ctx.state(&[r.id.as_bytes(), format!("disclose{:?}", u).as_bytes()]);
            let mv = msgs(&m);
            let d = mccore::guard_val(|| sig.disclose_selectively(&mv, bases.clone(), &w.pk, &u)); env.ctx.step();
            match d { O::Ok((sdm, sdb)) => { expect_bool(env, &r.id, &format!("verify_multiattr after disclose_selectively(unrevealed={:?})", u), &vcall(|| sig.verify_multiattr(&w.pk, &sdb, &sdm)), true, false, "complete:disclose_selectively", json!({"base": det0, "unrevealed": u})); }
                      o => env.ctx.violation("C13:disclose_selectively:failed", &o.describe(), env.case(&r.id, json!({"base": det0, "unrevealed": u}))) }
            env.ctx.trace();
            // the same set of hidden positions given as a list with a repeat / in reverse order / unsorted with a repeat: same statement
            if !u.is_empty() {
                let mut sp: Vec<Vec<usize>> = Vec::new();
                let mut a = u.clone(); a.push(u[u.len() - 1]); sp.push(a);
                let mut a = vec![u[0]]; a.extend(u.iter()); sp.push(a);
                if u.len() >= 2 { let mut a = u.clone(); a.reverse(); sp.push(a.clone()); a.push(u[u.len() - 1]); sp.push(a); }
                for spu in &sp {
                    if !env.ctx.state(&[r.id.as_bytes(), format!("disclose-spelling{:?}", spu).as_bytes()]) { continue; }
                    let d = mccore::guard_val(|| sig.disclose_selectively(&mv, bases.clone(), &w.pk, spu)); env.ctx.step();
                    match d { O::Ok((sdm, sdb)) => { expect_bool(env, &r.id, &format!("verify_multiattr after disclose_selectively(unrevealed={:?}, the set {:?})", spu, u), &vcall(|| sig.verify_multiattr(&w.pk, &sdb, &sdm)), true, false, "complete:disclose_selectively:list-spelling", json!({"base": det0, "unrevealed": u, "index_list_as_given": spu})); }
                              o => env.ctx.violation("C13:disclose_selectively:list-spelling:failed", &o.describe(), env.case(&r.id, json!({"base": det0, "unrevealed": u, "index_list_as_given": spu}))) }
                    env.ctx.class("complete:list-spelling");
                }
            }
        } }
        env.ctx.class("complete");
        // ---------------- negatives (each must give false)
        let mut neg = |name: String, cls: &str, s2: Option<Sig<CS>>, b2: &Bases, m2: &[Integer], pk2: &CL03PublicKey| {
            if !env.ctx.state(&[r.id.as_bytes(), name.as_bytes()]) { return; }
            let s2 = match s2 { Some(x) => x, None => { env.ctx.class("negative:not-constructible"); return; } };
            let got = verify(&s2, b2, m2, pk2);
            expect_bool(env, &r.id, &format!("verify after [{}]", name), &got, false, true, &format!("binding:{}", cls), json!({"base": det0, "edit": name, "claimed_attributes": m2.iter().map(sd).collect::<Vec<_>>()}));
            env.ctx.class(&format!("reject:{}", cls)); env.ctx.trace();
        };
        for i in 0..n {
            for (an, a) in &A { if *a != m[i] { let mut m2 = m.clone(); m2[i] = a.clone(); neg(format!("m[{}] := {}", i, an), "attribute-replace", Some(sig.clone()), &bases, &m2, &w.pk); } }
            // F7 family: shift by k*e with v' = v * a_i^(+-k): derivable from a valid signature without the secret key
            for k in [1i32, 2, -1, -2] {
                let mut m2 = m.clone(); m2[i] += e.clone() * k;
                let v2 = (v.clone() * modpow(&bases.0[i], &Integer::from(k), &w.pk.N)) % &w.pk.N;
                neg(format!("m[{}] += {}*e, v *= a_{}^{}", i, k, i, k), "shift-by-multiple-of-e", mk_sig::<CS>(&e, &s, &v2), &bases, &m2, &w.pk);
            }
            { let mut m2 = m.clone(); m2[i] += pow2(CS::lm); neg(format!("m[{}] += 2^lm", i), "attribute-oversized", Some(sig.clone()), &bases, &m2, &w.pk); }
            { let mut m2 = m.clone(); m2[i] = -m2[i].clone() - 1u32; neg(format!("m[{}] := -m-1", i), "attribute-negative", Some(sig.clone()), &bases, &m2, &w.pk); }
            for j2 in (i + 1)..n { if m[i] != m[j2] { let mut m2 = m.clone(); m2.swap(i, j2); neg(format!("swap m[{}] <-> m[{}]", i, j2), "attribute-swap", Some(sig.clone()), &bases, &m2, &w.pk); } }
        }
        // s shifted by k with v unchanged, and the b-analogue of the shift: s += e, v *= b
        { let v2 = (v.clone() * &w.pk.b) % &w.pk.N; let s2 = s.clone() + &e; let got = mk_sig::<CS>(&e, &s2, &v2);
          // (e, s+e, v*b) is another valid signature on the SAME attributes (re-randomisation of s): it is not a forgery, it must verify
          if env.ctx.state(&[r.id.as_bytes(), b"s+=e,v*=b"]) { if let Some(g) = got { expect_bool(env, &r.id, "verify (e, s+e, v*b) on the same attributes", &verify(&g, &bases, &m, &w.pk), true, false, "same-statement:s-rerandomised", det0.clone()); env.ctx.class("accept:same-statement"); env.ctx.trace(); } } }
        let next_prime = e.clone().next_prime();
        let field_edits: Vec<(String, &str, Integer, Integer, Integer)> = vec![
            ("e += 1".into(), "field:e", e.clone() + 1u32, s.clone(), v.clone()), ("e -= 1".into(), "field:e", e.clone() - 1u32, s.clone(), v.clone()), ("e := 0".into(), "field:e", Integer::from(0), s.clone(), v.clone()),
            ("e := next prime".into(), "field:e", next_prime, s.clone(), v.clone()), ("e := 2^le + 1".into(), "field:e", pow2(CS::le) + 1u32, s.clone(), v.clone()), ("e := 1, v := rhs".into(), "field:e-trivial", Integer::from(1), s.clone(), {
                let mut rhs = modpow(&w.pk.b, &s, &w.pk.N) * &w.pk.c; for i in 0..n { rhs *= modpow(&bases.0[i], &m[i], &w.pk.N); } rhs % &w.pk.N }),
            ("s += 1".into(), "field:s", e.clone(), s.clone() + 1u32, v.clone()), ("s -= 1".into(), "field:s", e.clone(), s.clone() - 1u32, v.clone()), ("s := 0".into(), "field:s", e.clone(), Integer::from(0), v.clone()),
            ("v += 1".into(), "field:v", e.clone(), s.clone(), v.clone() + 1u32), ("v -= 1".into(), "field:v", e.clone(), s.clone(), v.clone() - 1u32), ("v := 0".into(), "field:v", e.clone(), s.clone(), Integer::from(0)), ("v := N - v".into(), "field:v", e.clone(), s.clone(), w.pk.N.clone() - &v),
            ("swap e <-> s".into(), "field:swap", s.clone(), e.clone(), v.clone()), ("swap s <-> v".into(), "field:swap", e.clone(), v.clone(), s.clone()), ("swap e <-> v".into(), "field:swap", v.clone(), s.clone(), e.clone()),
        ];
        for (name, cls, e2, s2, v2) in field_edits { neg(name, cls, mk_sig::<CS>(&e2, &s2, &v2), &bases, &m, &w.pk); }
        // two components edited together: a negated exponent with the inverted v satisfies the equation ((v^-1)^(-e) = v^e)
        { let vinv = v.clone().invert(&w.pk.N).unwrap_or_default();
          neg("e := -e, v := v^-1 mod N".into(), "field:negated-e-with-inverted-v", mk_sig::<CS>(&(-e.clone()), &s, &vinv), &bases, &m, &w.pk);
          neg("e := -e".into(), "field:e", mk_sig::<CS>(&(-e.clone()), &s, &v), &bases, &m, &w.pk);
          neg("v := v^-1 mod N".into(), "field:v", mk_sig::<CS>(&e, &s, &vinv), &bases, &m, &w.pk);
          neg("v := v + N".into(), "field:v-other-representative", mk_sig::<CS>(&e, &s, &(v.clone() + &w.pk.N)), &bases, &m, &w.pk);
          neg("v := v - N".into(), "field:v-other-representative", mk_sig::<CS>(&e, &s, &(v.clone() - &w.pk.N)), &bases, &m, &w.pk);
          neg("v := v + 2N".into(), "field:v-other-representative", mk_sig::<CS>(&e, &s, &(v.clone() + w.pk.N.clone() * 2u32)), &bases, &m, &w.pk);
          neg("s := -s, with v adjusted by b^(-2s/e)? (not derivable) -> s := -s".into(), "field:s", mk_sig::<CS>(&e, &(-s.clone()), &v), &bases, &m, &w.pk); }
        // a LONGER vector than the signed one, with the same bases (the extra attributes have no base): must not verify
        if !r.single_api { for extra in [Integer::from(0), Integer::from(1), A[3].1.clone()] { let mut m2 = m.clone(); m2.push(extra.clone()); neg(format!("vector extended by {} (no base for it)", sd(&extra)), "attribute-count", Some(sig.clone()), &bases, &m2, &w.pk); } }
        if n >= 2 && !r.single_api { let m2 = m[..n - 1].to_vec(); if m[n - 1] != 0 { neg("vector truncated by its last attribute".into(), "attribute-count", Some(sig.clone()), &bases, &m2, &w.pk); } }
        let fresh = Bases(other.bases.0[..n].iter().map(|x| x.clone() % &w.pk.N).collect());
        // bases are only bound where the attribute is non-zero (a^0 = 1 for every base)
        if m.iter().any(|x| *x != 0) { neg("fresh bases".into(), "other-bases", Some(sig.clone()), &fresh, &m, &w.pk); }
        if n >= 2 { let mut b2 = bases.clone(); b2.0.swap(0, 1); if m[0] != m[1] { neg("bases 0 and 1 swapped".into(), "other-bases", Some(sig.clone()), &b2, &m, &w.pk); } }
        neg("other key".into(), "other-key", Some(sig.clone()), &bases, &m, &other.pk);
        env.ctx.trace();
        if r.vec == vec![2, 3] { env.ctx.sample(json!({"root": r.id, "attributes": names, "negatives": "replace / shift by k*e / oversized / negative / swap / field edits / other bases / other key"})); }
    });
    codec_magnitudes::<CS>(env, &worlds[0].pk.N);
    // (b) base sets that are valid group elements but not quadratic residues (N - a_i): issuance takes an e-th root, which exists
    //     and is unique in all of Z_N^*, so these signatures verify too (an inverse of e taken modulo the order of QR_N only would not do)
    {
        let w = &worlds[0];
        let cases: Vec<(usize, Vec<usize>)> = vec![(1, vec![0]), (2, vec![0]), (2, vec![1]), (2, vec![0, 1]), (3, vec![1])];
        par_for(&cases, |_, (n, neg)| {
            let id = format!("{}/non-residue-bases/n{}/negated{:?}", CS::NAME, n, neg);
            if !env.want(&id) || env.ctx.out_of_time() { return; }
            let mut b = w.bases.0[..*n].to_vec(); for &i in neg { b[i] = w.pk.N.clone() - &b[i]; }
            let bases = Bases(b);
            for round in 0..16u32 {
                env.ctx.state(&[id.as_bytes(), &round.to_be_bytes()]); env.ctx.step();
                // odd attributes at the negated positions keep the product a non-residue
                let m: Vec<Integer> = distinct_attrs(seed + round as u64, "c13-nonres", *n).into_iter().map(|x| x | Integer::from(1)).collect();
                let det = json!({"suite": CS::NAME, "n": n, "negated_bases": neg, "round": round});
                let sig: O<Sig<CS>> = mccore::guard_val(|| Sig::<CS>::sign_multiattr(&w.pk, &w.sk, &bases, &msgs(&m)));
                match sig { O::Ok(sg) => { let mv = msgs(&m); expect_bool(env, &id, "verify_multiattr(sign_multiattr(m)) over bases N - a_i", &vcall(|| sg.verify_multiattr(&w.pk, &bases, &mv)), true, false, "complete:non-residue-bases", det.clone());
                        if *n == 1 { let sg1: O<Sig<CS>> = mccore::guard_val(|| Sig::<CS>::sign(&w.pk, &w.sk, &bases, &msg(&m[0]))); if let O::Ok(s1) = sg1 { expect_bool(env, &id, "verify(sign(m)) over base N - a_0", &vcall(|| s1.verify(&w.pk, &bases, &mv[0])), true, false, "complete:non-residue-bases", det.clone()); } } }
                    o => env.ctx.violation("C13:sign-failed:non-residue-bases", &o.describe(), env.case(&id, det)) }
                env.ctx.class("non-residue-bases"); env.ctx.trace();
            }
        });
    }
    for (i, w) in worlds.iter().enumerate() { primes_out.lock().unwrap().push(json!({"kind": "key", "root": format!("{}/key{}", CS::NAME, i), "p": w.sk.p.to_string_radix(16), "q": w.sk.q.to_string_radix(16), "N": w.pk.N.to_string_radix(16), "secparam": CS::SECPARAM})); }
}
