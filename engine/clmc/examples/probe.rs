use zkryptium::schemes::algorithms::*; use zkryptium::schemes::generics::*; use zkryptium::keys::pair::KeyPair;
use zkryptium::cl03::{bases::Bases, keys::CL03CommitmentPublicKey, ciphersuites::*};
use zkryptium::utils::message::cl03_message::CL03Message;
use std::time::Instant;
fn main(){
  type S = CL03_CL1024_SHA256;
  let t=Instant::now();
  let kp = KeyPair::<S>::generate();
  println!("keygen {:?}", t.elapsed());
  let n=3;
  let bases = Bases::generate(kp.public_key(), n);
  let msgs: Vec<CL03Message> = (0..n).map(|i| CL03Message::map_message_to_integer_as_hash::<CL1024Sha256>(&[i as u8])).collect();
  let sig = Signature::<S>::sign_multiattr(kp.public_key(), kp.private_key(), &bases, &msgs);
  println!("sig json {}", serde_json::to_string(&sig).unwrap().len());
  println!("{}", &serde_json::to_string(&sig).unwrap()[..200]);
  println!("verify {}", sig.verify_multiattr(kp.public_key(), &bases, &msgs));
  let t=Instant::now();
  let cpk = CL03CommitmentPublicKey::generate::<CL1024Sha256>(Some(kp.public_key().N.clone()), Some(n));
  println!("cpk {:?}", t.elapsed());
  let t=Instant::now();
  let p = PoKSignature::<S>::proof_gen(sig.cl03Signature(), &cpk, kp.public_key(), &bases, &msgs, &[0,2]);
  println!("proof_gen {:?}", t.elapsed());
  let t=Instant::now();
  println!("verify {} {:?}", p.proof_verify(&cpk, kp.public_key(), &bases, &[msgs[1].clone()], &[0,2], n), t.elapsed());
  let j = serde_json::to_value(&p).unwrap();
  fn keys(v:&serde_json::Value, pre:String, d:usize){ match v { serde_json::Value::Object(m)=>{ for (k,x) in m { if d<6 {keys(x, format!("{}/{}",pre,k), d+1);} } }, serde_json::Value::Array(a)=>{ for (i,x) in a.iter().enumerate(){ keys(x, format!("{}/{}",pre,i), d+1);} }, serde_json::Value::String(s)=>println!("{} = str{}",pre,s.len()), o=>println!("{} = {}",pre,o) } }
  keys(&j, String::new(), 0);
}
