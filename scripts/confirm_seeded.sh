#!/bin/bash
# usage: confirm_seeded.sh <worktree> <A|B> [cl03]
# Confirms a sub-agent's seeded change in its scratch worktree: demo passes on the unchanged tree, the pinned suite
# still passes with the change, the demo fails with the change. Leaves the worktree unchanged.
WT=$1; X=$2; CL=${3:-}
x=$(echo $X | tr 'A-Z' 'a-z')
cd $WT || exit 2
git checkout -q -- src Cargo.toml
cp -f ${SEEDDIR:-SEEDED}/demo_$x.rs examples/demo_$x.rs 2>/dev/null
FEAT=""; [ -n "$CL" ] && FEAT="--release --features cl03" && export GMP_MPFR_SYS_CACHE=/tmp/gmp-cache
cargo run -q --offline $FEAT --example demo_$x >/dev/null 2>&1; base=$?
git apply ${SEEDDIR:-SEEDED}/$X.diff || { echo "$WT $X: diff does not apply"; exit 1; }
suite=$(cargo test --workspace --no-fail-fast --offline 2>&1 | grep -E '^test result' | head -1)
cargo run -q --offline $FEAT --example demo_$x >/dev/null 2>&1; mut=$?
git checkout -q -- src Cargo.toml
echo "$WT $X: demo on unchanged tree exit=$base; with change exit=$mut; suite with change: $suite"
