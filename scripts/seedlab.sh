#!/bin/bash
# Seeded-change lab: runs the checks against a scratch worktree of /repo with a patch applied, without touching /repo
# (so it can run while registered checks are running). NOT used by any registered command.
#   seedlab.sh init                      create /tmp/seedlab (worktree of /repo HEAD + copy of the engine wired to it)
#   seedlab.sh run <patch> <tier> Cxx..  apply patch in the lab worktree, build, run the checks, restore
#   seedlab.sh clean                     remove the lab
LAB=${SEEDLAB:-/tmp/seedlab}; VERIF="$(cd "$(dirname "$0")/.." && pwd)"
export CARGO_NET_OFFLINE=true GMP_MPFR_SYS_CACHE=$VERIF/.cache/gmp-mpfr-sys
sync_engine() {
  mkdir -p $LAB/out/evidence $LAB/out/replays
  rsync -a --delete --exclude target ${ENGINE_SRC:-$VERIF/engine}/ $LAB/engine/
  sed -i "s#path = \"/repo\"#path = \"$LAB/repo\"#" $LAB/engine/zkmc/Cargo.toml $LAB/engine/clmc/Cargo.toml
  cp $VERIF/known_findings.json $LAB/out/; ln -sfn $VERIF/scripts $LAB/out/scripts
}
case "$1" in
  init) mkdir -p $LAB; [ -d $LAB/repo ] || git -C /repo worktree add -q --detach $LAB/repo HEAD; git -C $LAB/repo checkout -q --detach "$(git -C /repo rev-parse HEAD)"; sync_engine;;
  clean) git -C /repo worktree remove --force $LAB/repo 2>/dev/null; rm -rf $LAB;;
  run) shift; P=$1; TIER=$2; shift 2
    sync_engine
    git -C $LAB/repo checkout -q -- . ; [ "$P" = none ] || git -C $LAB/repo apply "$P" 2>/dev/null || git -C $LAB/repo apply --3way "$P" 2>/dev/null || { echo "PATCH-DOES-NOT-APPLY $P"; git -C $LAB/repo checkout -q -- .; git -C $LAB/repo reset -q; exit 3; }
    for id in "$@"; do
      n=${id#C}; if [ $((10#$n)) -le 12 ]; then BIN=zkmc; else BIN=clmc; fi
      b=$(cd $LAB/engine && CARGO_TARGET_DIR=$LAB/target cargo build --release --offline -q -p $BIN 2>&1 | grep -E "^error" -A5 | head -12)
      if [ -n "$b" ]; then echo "$id exit=2 BUILD-ERROR: $(echo "$b" | head -3 | tr '\n' ' ')"; continue; fi
      out=$(VERIF_ROOT=$LAB/out VERIF_REPO=$LAB/repo $LAB/target/release/$BIN check $id --tier $TIER 2>&1); rc=$?
      echo "$id exit=$rc $(echo "$out" | grep -c '^VIOLATION') violation line(s); $(echo "$out" | grep -E "^$id $TIER:" | tail -1)"
      echo "$out" | grep -E "^  what:|MACHINERY" | head -4 | cut -c1-330
    done
    git -C $LAB/repo checkout -q -- . ; git -C $LAB/repo reset -q;;
esac
