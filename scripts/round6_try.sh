#!/bin/bash
# usage: round6_try.sh <Cxx> <K|L> [extra check ids...]   (round-6 helper, not used by any registered command)
# 1. confirms the sub-agent's change in its scratch worktree /tmp/wt-<Cxx> (SEEDED6/), 2. runs the property's own
# check (and any extra ones) on it in the seed lab.
P=$1; X=$2; shift 2
n=${P#C}; CL=""; [ $((10#$n)) -ge 13 ] && CL=cl03
cd "$(dirname "$0")/.."
SEEDDIR=${SEEDDIR:-SEEDED6} scripts/confirm_seeded.sh /tmp/wt-$P $X $CL 2>&1 | cut -c1-200
scripts/seedlab.sh run /tmp/wt-$P/${SEEDDIR:-SEEDED6}/$X.diff ${TIER:-quick} $P "$@" 2>&1 | cut -c1-400
