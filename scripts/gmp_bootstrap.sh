#!/bin/bash
# Builds GMP 6.3.0 / MPFR 4.2.2 / MPC 1.4.1 from the sources bundled in the cargo registry's gmp-mpfr-sys crate and
# installs them where gmp-mpfr-sys's build script looks for a cache (GMP_MPFR_SYS_CACHE). Needed because the stock
# build wants m4, which this sandbox does not have. Generic C (no assembly): needs no m4.
set -e
SRC=$(ls -d ~/.cargo/registry/src/*/gmp-mpfr-sys-1.7.1 | head -1)
VERIF=$(cd "$(dirname "$0")/.." && pwd)
CACHE=$VERIF/.cache/gmp-mpfr-sys
DEST=$CACHE/1.7/x86_64-unknown-linux-gnu/1.7.1
B=$VERIF/.cache/gmp-build
rm -rf $B; mkdir -p $B/gmp $B/mpfr $B/mpc $DEST
J=$(nproc)
cd $B/gmp && M4=/bin/true sh $SRC/gmp-6.3.0-c/configure --disable-assembly --disable-shared --with-pic >/dev/null && make -j$J >/dev/null 2>&1
cd $B/mpfr && sh $SRC/mpfr-4.2.2-c/configure --enable-thread-safe --disable-decimal-float --disable-float128 --disable-shared --with-gmp-build=$B/gmp --with-pic >/dev/null && make -j$J >/dev/null 2>&1
cd $B/mpc && sh $SRC/mpc-1.4.1-c/configure --disable-shared --with-mpfr-include=$SRC/mpfr-4.2.2-c/src --with-mpfr-lib=$B/mpfr/src/.libs --with-gmp-include=$B/gmp --with-gmp-lib=$B/gmp/.libs --with-pic >/dev/null && make -j$J >/dev/null 2>&1
cp $B/gmp/.libs/libgmp.a $B/gmp/gmp.h $DEST/
cp $B/mpfr/src/.libs/libmpfr.a $SRC/mpfr-4.2.2-c/src/mpfr.h $DEST/
cp $B/mpc/src/.libs/libmpc.a $SRC/mpc-1.4.1-c/src/mpc.h $DEST/
rm -rf $B
ls -la $DEST
echo "gmp bootstrap ok"
