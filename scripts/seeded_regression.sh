#!/bin/bash
# Mutation regression: applies every seeded change under /verif/seeded to /repo in turn, runs the checks listed in its
# meta.json at the listed tier, restores /repo, and prints one line per seed. Long (about an hour for all seeds).
# NOTE: the runs rewrite /verif/evidence/<id>.json with the verdicts on the PATCHED tree; restore the committed evidence
# afterwards (git -C /verif checkout -- evidence) or re-run the quick tier. seeded_regression_lab.sh does not have this effect.
# usage: seeded_regression.sh [seed-id ...]        (default: all)
cd /verif || exit 2
IDS="$@"; [ -z "$IDS" ] && IDS=$(ls seeded)
for id in $IDS; do
  m=seeded/$id/meta.json; [ -f $m ] || continue
  if python3 -c "import json,sys;sys.exit(0 if json.load(open('$m')).get('not_judged') else 1)"; then echo "$id: NOT-JUDGED (the change stays within the property as the check reads it; see meta.json)"; continue; fi
  checks=$(python3 -c "import json;m=json.load(open('$m'));print(' '.join(m['checks_run']['caught_by']))")
  tier=$(python3 -c "import json;m=json.load(open('$m'));print(m['checks_run'].get('tier','quick'))")
  out=$(VERIF_CL_SUITES=CL1024,CL2048 SKIP_SUITE=1 scripts/try_seeded.sh seeded/$id/patch.diff $tier $checks 2>&1)
  if echo "$out" | grep -q "does not apply"; then echo "$id: SKIPPED (patch does not apply to this HEAD)"; continue; fi
  caught=$(echo "$out" | grep -c "exit=1")
  echo "$id: $( [ $caught -gt 0 ] && echo CAUGHT || echo MISSED ) by [$checks] ($tier) -- $(echo "$out" | grep -E 'exit=' | sed 's/ violation line.*//' | tr '\n' ' ')"
done
