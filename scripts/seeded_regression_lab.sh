#!/bin/bash
# Mutation regression in the seed lab (scripts/seedlab.sh): like seeded_regression.sh but /repo is never patched, so it can
# run next to registered checks and in several shards (SEEDLAB=/tmp/seedlabN seeded_regression_lab.sh <ids...>).
# usage: seeded_regression_lab.sh [seed-id ...]        (default: all)
cd "$(dirname "$0")/.." || exit 2
IDS="$@"; [ -z "$IDS" ] && IDS=$(ls seeded | grep -v REGRESSION)
scripts/seedlab.sh init >/dev/null 2>&1
for id in $IDS; do
  m=seeded/$id/meta.json; [ -f $m ] || continue
  if python3 -c "import json,sys;sys.exit(0 if json.load(open('$m')).get('not_judged') else 1)"; then echo "$id: NOT-JUDGED (the change stays within the property as the check reads it; see meta.json)"; continue; fi
  checks=$(python3 -c "import json;m=json.load(open('$m'));print(' '.join(m['checks_run']['caught_by']))")
  tier=$(python3 -c "import json;m=json.load(open('$m'));print(m['checks_run'].get('tier','quick'))")
  out=$(VERIF_CL_SUITES=CL1024,CL2048 scripts/seedlab.sh run $PWD/seeded/$id/patch.diff $tier $checks 2>&1)
  if echo "$out" | grep -q "PATCH-DOES-NOT-APPLY"; then echo "$id: SKIPPED (patch does not apply to this HEAD)"; continue; fi
  caught=$(echo "$out" | grep -c "exit=1")
  echo "$id: $( [ $caught -gt 0 ] && echo CAUGHT || echo MISSED ) by [$checks] ($tier) -- $(echo "$out" | grep -E 'exit=' | sed 's/ violation line.*//' | tr '\n' ' ')"
done
