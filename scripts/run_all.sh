#!/bin/bash
# usage: run_all.sh <quick|thorough> [ids...]  — runs the registered checks one after another, prints one line per check
VERIF="$(cd "$(dirname "$0")/.." && pwd)"; TIER=${1:-quick}; shift
IDS=${@:-C01 C02 C03 C04 C05 C06 C07 C08 C09 C10 C11 C12 C13 C14 C15 C16 C17 C18 C19}
for id in $IDS; do
  s=$(date +%s); out=$("$VERIF/check.sh" $id $TIER 2>&1); rc=$?; e=$(date +%s)
  echo "$id $TIER exit=$rc wall=$((e-s))s :: $(echo "$out" | grep -E "^$id $TIER:" | tail -1)"
  echo "$out" | grep -E "VIOLATION|KNOWN-FINDING|MACHINERY" | head -5
done
