#!/bin/bash
# setup_cmd: offline build of the framework from files on disk only.
set -e
VERIF=$(cd "$(dirname "$0")/.." && pwd)
export CARGO_NET_OFFLINE=true CARGO_TARGET_DIR=$VERIF/target
export GMP_MPFR_SYS_CACHE=$VERIF/.cache/gmp-mpfr-sys
mkdir -p $VERIF/target $VERIF/evidence $VERIF/replays
cd $VERIF/engine
cargo build --release --offline -p zkmc 2>&1 | tail -3
if [ -f $VERIF/scripts/gmp_bootstrap.sh ]; then
  if [ ! -f $GMP_MPFR_SYS_CACHE/1.7/x86_64-unknown-linux-gnu/1.7.1/libgmp.a ]; then bash $VERIF/scripts/gmp_bootstrap.sh > $VERIF/target/gmp_bootstrap.log 2>&1 || { echo "GMP bootstrap failed"; tail -20 $VERIF/target/gmp_bootstrap.log; exit 1; }; fi
  if [ -f $VERIF/engine/clmc/src/main.rs ] && grep -q "fn main" $VERIF/engine/clmc/src/main.rs; then cargo build --release --offline -p clmc 2>&1 | tail -3; fi
fi
echo setup done
