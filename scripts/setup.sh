#!/bin/bash
# setup_cmd: offline build of the framework from files on disk only.
set -e
export CARGO_NET_OFFLINE=true CARGO_TARGET_DIR=/verif/target
export GMP_MPFR_SYS_CACHE=/verif/.cache/gmp-mpfr-sys
mkdir -p /verif/target /verif/evidence /verif/replays
cd /verif/engine
cargo build --release --offline -p zkmc 2>&1 | tail -3
if [ -f /verif/scripts/gmp_bootstrap.sh ]; then
  if [ ! -f $GMP_MPFR_SYS_CACHE/1.7/x86_64-unknown-linux-gnu/1.7.1/libgmp.a ]; then bash /verif/scripts/gmp_bootstrap.sh > /verif/target/gmp_bootstrap.log 2>&1 || { echo "GMP bootstrap failed"; tail -20 /verif/target/gmp_bootstrap.log; exit 1; }; fi
  if [ -f /verif/engine/clmc/src/main.rs ] && grep -q "fn main" /verif/engine/clmc/src/main.rs; then cargo build --release --offline -p clmc 2>&1 | tail -3; fi
fi
echo setup done
