#!/usr/bin/env python3-vt
"""Independent (non-GMP) big-integer checker: Python integers + sympy's BPSW primality test.
stdin: JSON list of items; stdout: JSON list of {"ok": bool, "failed": "<first failing fact>"}.
kinds:  e    {"value": hex, "bits": n}                      -> exact bit length, prime
        key  {"p","q","N","secparam"}                      -> N = p*q, p != q, p,q,(p-1)/2,(q-1)/2 prime, |p| = |q| = secparam+1
        qr   {"x","N","p","q", "what"}                     -> 1 < x < N, gcd(x,N)=1, Jacobi(x,p)=Jacobi(x,q)=1
        gen  {"h","N","p","q"}                             -> h generates QR_N: h^p' != 1 != h^q'
        mod  {"p","q","N","secparam"} same as key (own-modulus commitment keys)
"""
import json, sys
from math import gcd
from sympy import isprime
from sympy.ntheory import jacobi_symbol

def H(x): return int(x, 16)

def check(it):
    k = it["kind"]
    if k == "e":
        v = H(it["value"])
        if v.bit_length() != it["bits"]: return "bit-length"
        if not isprime(v): return "not-prime"
        return None
    if k in ("key", "mod"):
        p, q, N = H(it["p"]), H(it["q"]), H(it["N"])
        if p * q != N: return "N!=p*q"
        if p == q: return "p==q"
        for nm, x in (("p", p), ("q", q), ("(p-1)/2", (p - 1) // 2), ("(q-1)/2", (q - 1) // 2)):
            if not isprime(x): return nm + "-not-prime"
        if (p - 1) % 2 or (q - 1) % 2: return "even"
        if p.bit_length() != it["secparam"] + 1 or q.bit_length() != it["secparam"] + 1: return "prime-size"
        return None
    if k == "qr":
        x, N, p, q = H(it["x"]), H(it["N"]), H(it["p"]), H(it["q"])
        if not (1 < x < N): return "range"
        if gcd(x, N) != 1: return "not-coprime"
        if jacobi_symbol(x % p, p) != 1 or jacobi_symbol(x % q, q) != 1: return "not-a-quadratic-residue"
        return None
    if k == "gen":
        h, N, p, q = H(it["h"]), H(it["N"]), H(it["p"]), H(it["q"])
        pp, qq = (p - 1) // 2, (q - 1) // 2
        if pow(h, pp, N) == 1 or pow(h, qq, N) == 1: return "h-does-not-generate-QR_N"
        if pow(h, pp * qq, N) != 1: return "h-not-in-QR_N"
        return None
    return "unknown-kind"

items = json.load(sys.stdin)
out = []
for it in items:
    try:
        f = check(it)
    except Exception as ex:  # noqa
        f = "exception:" + type(ex).__name__
    out.append({"ok": f is None, "failed": f})
json.dump(out, sys.stdout)
