#!/bin/bash
# usage: try_seeded.sh <patch.diff> <tier> <ID> [<ID> ...]
# Applies a seeded breaking change to /repo, optionally runs the repository's own suite, runs the given checks,
# and ALWAYS reverts /repo afterwards. Prints one line per check: "<ID> exit=<rc> <summary>".
set -u
PATCH=$(readlink -f "$1"); TIER="$2"; shift 2
cd /repo || exit 2
if [ -n "$(git status --porcelain -- src Cargo.toml)" ]; then echo "refusing: /repo has uncommitted changes"; exit 2; fi
if ! git apply "$PATCH" 2>/dev/null; then
  # the repository moved on since the seed was written: try a 3-way merge, refuse on conflicts
  git apply --3way "$PATCH" >/dev/null 2>&1 || true
  if [ -z "$(git status --porcelain -- src Cargo.toml)" ] || grep -rq '^<<<<<<< ' src Cargo.toml; then git checkout -q HEAD -- . 2>/dev/null; git reset -q 2>/dev/null; echo "patch does not apply to this HEAD"; exit 2; fi
  git reset -q 2>/dev/null
  echo "(applied with --3way)"
fi
trap 'git -C /repo checkout -- . ; git -C /repo status --short | head -3' EXIT
if [ "${SKIP_SUITE:-0}" != 1 ]; then
  echo "suite: $(cargo test --workspace --no-fail-fast --offline 2>&1 | grep -E '^test result' | head -1)"
fi
for ID in "$@"; do
  OUT=$(/verif/check.sh "$ID" "$TIER" 2>&1); rc=$?
  echo "$ID exit=$rc $(echo "$OUT" | grep -c '^VIOLATION') violation line(s); $(echo "$OUT" | tail -1)"
  echo "$OUT" | grep -E "^  what" | head -4
done
